"""Generated pattern-matching program shapes (C07): subject type x pattern form x syntactic context
x result expression.  Only the programs the real compiler accepts are used; the check is static."""
import itertools

TYPES = [
    "(A[a: 'int] | B[b: 'int])",
    "(A[a: 'int, c: 'int] | B[b: 'int, c: 'int])",
    "Point[x: 'int, y: 'int]",
    "['int, 'int]",
    "('int | [])",
    "(A['int] | B['int])",
    "[('int | 'bin), 'int]",
    "(A[a: 'int] | [])",
    "[(A['int] | B['int]), 'int]",
]

PATTERNS = [
    "*", "A*", "(c)", "A(c)", "(a)", "(a, c)", "[x, y]", "[x, _]", "[x, x]", "[x, &x]", "[x, &q]", "A[x]",
    "(A[x] | B[x])", "('int)n", "'int", "5", "[]", "Point[x, y]", "[x: p, y: r]", "(x, y)", "Point(x)",
    "[('int)n, y]", "[('bin)n, y]", "A[a: ('int)n]", "(A[a: x] | B[b: x])", "[5, y]", "x",
    "[(A[x] | B[x]), x]", "[(A[x] | B[x]), y]", "[(A[x] | B[y]), n]", "[A[x], x]",
]

CONTEXTS = [
    "f = #{T} {{ ={P} => {R} }}",
    "f = #{T} {{ ={P}, {R} }}",
    "f = #{T} {{ | ={P} => {R} | 0 }}",
    "f = #{T} {{ {{ ={P} => {R} }} =w, [w, 7] }}",
    "q = 1, f = #{T} {{ $ ={P}, {R} }}",
    "q = 1, f = #{T} {{ | ={P} => {R} | ={P} => 2 | 3 }}",
    "f = #{T} {{ v = $, v {{ | ={P} => {R} | 0 }} =w, [v, w] }}",
    "x = 1, f = #{T} {{ $ ={P}, {R} }}",
    "x = 1, y = 2, f = #{T} {{ | ={P} => {R} | 0 }}",
]

RESULTS = ["1", "a", "b", "c", "x", "y", "n", "p"]


def programs():
    out = []
    for (ti, t), (pi, p), (ci, c), r in itertools.product(enumerate(TYPES), enumerate(PATTERNS), enumerate(CONTEXTS), RESULTS):
        src = c.replace("{T}", t).replace("{P}", p).replace("{R}", r).replace("{{", "{").replace("}}", "}")
        out.append(("gen_pat/t%d/p%d/c%d/%s" % (ti, pi, ci, r), src))
    return out
