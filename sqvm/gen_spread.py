"""Generated tuple-spread shapes (C01): a tuple built from explicit fields and spreads in which a
later contributor overrides a named field with a value of a DIFFERENT type; the field is then used
in a type-dependent way.  The static type of the result has to follow the rightmost contributor."""
import itertools

# (name, definitions, tuple expression, field used, how it is used)
BASES = [
    ("default_then_spread", "o = [x: \"s\"],", "[x: 0, y: $, ...o]"),
    ("default_then_spread_int", "o = [x: $],", "[x: \"s\", y: 1, ...o]"),
    ("two_spreads", "a = [x: $, y: 0x00], b = [x: \"s\"],", "[...a, ...b]"),
    ("two_spreads_rev", "a = [x: \"s\", y: 0x00], b = [x: $],", "[...a, ...b]"),
    ("spread_then_explicit", "a = [x: $, y: 0x00],", "[...a, x: \"s\"]"),
    ("explicit_then_spread_then_explicit", "a = [x: \"s\"],", "[x: 0, ...a, x: $]"),
    ("nested", "o = [x: [h: $]],", "[x: [w: 3, h: \"s\"], d: 1, ...o]"),
    ("named", "o = P[x: \"s\"],", "P[x: 0, ...o]"),
    ("three", "a = [x: 0], b = [x: \"s\"], c = [x: $],", "[...a, ...b, ...c]"),
]

USES = [
    ("get", "{T} .x"),
    ("add", "{T} .x [~, 1] __integer_add__"),
    ("bind_add", "{T} =r, r.x [~, 1] __integer_add__"),
    ("pattern", "{T} { =(x: v) => v }"),
    ("whole", "{T}"),
    ("nested_h", "{T} .x.h"),
]


def programs():
    out = []
    for (bn, defs, tup), (un, use) in itertools.product(BASES, USES):
        body = defs + " " + use.replace("{T}", tup)
        out.append(("gen_spread/%s/%s" % (bn, un), "f = #'int { %s }" % body))
    return out
