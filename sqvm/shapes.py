"""Enumerate the constructor shapes of a type (from the real type table) and instantiate them as
SQVM values with fresh symbolic leaves.

A shape is ('int',) | ('bin',) | ('tuple', tuple_id, (shape, ...)) | ('opaque', type_json).
Unions are expanded (that is the finite, complete enumeration of tags); recursive types
(Type::Cycle(d) = the union d levels up the stack of enclosing unions/callables, as in
quiver_core::types::check_type_relation) are unfolded up to `depth` tuple nestings.
"""
import itertools
import z3
from .machine import VInt, VBin, VTuple, Atom


class ShapeError(Exception):
    pass


def type_of(prog, tid):
    if tid >= len(prog.types):
        raise ShapeError("type id %d out of range" % tid)
    return prog.types[tid]


def shapes(prog, tid, depth, stack=(), limit=100000):
    t = type_of(prog, tid)
    if t == "int":
        return [("int",)]
    if t == "bin":
        return [("bin",)]
    if t == "ref":
        return [("opaque", "ref")]
    if isinstance(t, dict):
        if "tuple" in t:
            tup = t["tuple"]
            name, fields = prog.tuples[tup]
            if not fields:
                return [("tuple", tup, ())]
            if depth <= 0:
                return []
            per = []
            for (_lbl, ft) in fields:
                s = shapes(prog, ft, depth - 1, stack, limit)
                if not s:
                    return []
                per.append(s)
            n = 1
            for s in per:
                n *= len(s)
            if n > limit:
                raise ShapeError("too many shapes (%d)" % n)
            return [("tuple", tup, combo) for combo in itertools.product(*per)]
        if "union" in t:
            out = []
            st2 = stack + (tid,)
            for v in t["union"]:
                out.extend(shapes(prog, v, depth, st2, limit))
            # dedupe
            seen = set()
            res = []
            for s in out:
                if s not in seen:
                    seen.add(s)
                    res.append(s)
            return res
        if "cycle" in t:
            d = t["cycle"]
            if d > len(stack):
                raise ShapeError("cycle depth beyond stack")
            target = stack[len(stack) - d]
            return shapes(prog, target, depth, stack[:len(stack) - d], limit)
        if "fn" in t:
            return [("opaque", "fn")]
        if "partial" in t:
            # closed world: every tuple of this program that has the partial's name (if any)
            # and fields; the named fields take the partial's field types, the others their
            # declared types
            part = t["partial"]
            pname, pfields = part.get("name"), dict((n, ft) for n, ft in (part.get("fields") or []))
            out = []
            for tup, (name, fields) in enumerate(prog.tuples):
                if pname is not None and name != pname:
                    continue
                labels = [l for l, _ in fields]
                if not all(n in labels for n in pfields):
                    continue
                if not fields:
                    out.append(("tuple", tup, ()))
                    continue
                if depth <= 0:
                    continue
                per = []
                try:
                    for (lbl, ft) in fields:
                        sh = shapes(prog, pfields.get(lbl, ft), depth - 1, stack, limit)
                        if not sh:
                            per = None
                            break
                        per.append(sh)
                except ShapeError:
                    per = None
                if per is None:
                    continue
                n = 1
                for sh in per:
                    n *= len(sh)
                if n > limit:
                    raise ShapeError("too many shapes (%d)" % n)
                out.extend(("tuple", tup, combo) for combo in itertools.product(*per))
            return out
        if "process" in t:
            return [("opaque", "process")]
        if "resource" in t:
            return [("opaque", "resource")]
        if "var" in t:
            return [("opaque", "var")]
    raise ShapeError("unknown type %r" % (t,))


def has_opaque(shape):
    if shape[0] == "opaque":
        return True
    if shape[0] == "tuple":
        return any(has_opaque(s) for s in shape[2])
    return False


def instantiate(shape, prefix, mode="int", leaves=None, atoms=None):
    """Build a value with fresh symbolic leaves.  mode: 'int' (z3 Int) or 'bv' (BitVec 64)."""
    if leaves is None:
        leaves = []
    if shape[0] == "int":
        v = z3.Int(prefix) if mode == "int" else z3.BitVec(prefix, 64)
        leaves.append((prefix, v))
        return VInt(v)
    if shape[0] == "bin":
        a = Atom(prefix)
        if atoms is not None:
            atoms.append(a)
        return VBin(a)
    if shape[0] == "tuple":
        return VTuple(shape[1], [instantiate(s, "%s.%d" % (prefix, i), mode, leaves, atoms)
                                 for i, s in enumerate(shape[2])])
    raise ShapeError("cannot instantiate " + repr(shape))


def describe(prog, shape):
    if shape[0] == "tuple":
        name = prog.tuples[shape[1]][0] or ""
        if not shape[2]:
            return name or "[]"
        return "%s[%s]" % (name, ", ".join(describe(prog, s) for s in shape[2]))
    return shape[0] if shape[0] != "opaque" else "<%s>" % shape[1]
