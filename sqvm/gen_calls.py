"""Generated call-site programs for C01: calls of generic standard-library functions whose type
parameter occurs at two argument positions, with every ordered pair of argument 'makers' of
related static types (a type and a strictly wider one, nil and an optional, two tagged variants).
Each program is a function of one symbolic int, which selects the run-time variant, so the solver
ranges over the inputs while the program family is enumerated."""
import itertools

DEFS = ("mk = #'int { =0 => 1 | \"a\" },\n"          # 'int | Str
        "mkn = #'int { =0 => 1 },\n"                 # 'int | []
        "mkt = #'int { =0 => A[1] | B[\"x\"] },\n"   # A['int] | B[Str]
        )

MAKERS = [("int", "1"), ("str", "\"a\""), ("int_or_str", "n mk"), ("nil", "[]"), ("int_or_nil", "n mkn"),
          ("a_or_b", "n mkt"), ("a", "A[2]")]

TEMPLATES = [
    ("list.prepend.head", "[Cons[{V1}, Nil], {V2}] %list.prepend ~> %list.head"),
    ("list.append", "[Cons[{V1}, Nil], {V2}] %list.append"),
    ("list.append.head", "[Cons[{V1}, Nil], {V2}] %list.append ~> %list.reverse ~> %list.head"),
    ("dict.put.get", "[[[] %dict.new, 0x6b, {V1}] %dict.put, 0x6a, {V2}] %dict.put [~, 0x6a] %dict.get"),
    ("dict.put.get.first", "[[[] %dict.new, 0x6b, {V1}] %dict.put, 0x6a, {V2}] %dict.put [~, 0x6b] %dict.get"),
]

# consumers applied to the result: a dispatch that is only sound if the inferred type covers the value
CONSUMERS = [
    ("id", ""),
    ("dispatch", " ~> { | =Str[b] => 0 | =[] => 1 | =A[k] => k | =B[s] => 3 | =Cons[h, t] => 4 | =Nil => 5 | ='int => [~, 1] __integer_add__ }"),
]


def programs():
    out = []
    for (tname, tmpl), (n1, v1), (n2, v2), (cname, cons) in itertools.product(TEMPLATES, MAKERS, MAKERS, CONSUMERS):
        body = tmpl.replace("{V1}", v1).replace("{V2}", v2) + cons
        fn = "#'int { n = $, " + body + " }"
        out.append({"name": "gen_calls/%s/%s/%s/%s" % (tname, n1, n2, cname), "defs": DEFS, "fn": fn,
                    "src": DEFS + fn})
    return out
