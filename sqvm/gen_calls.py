"""Generated call-site programs for C01: calls of generic standard-library functions whose type
parameter occurs at two argument positions, with every ordered pair of argument 'makers' of
related static types (a type and a strictly wider one, nil and an optional, two tagged variants).
Each program is a function of one symbolic int, which selects the run-time variant, so the solver
ranges over the inputs while the program family is enumerated."""
import itertools

DEFS = ("mk = #'int { =0 => 1 | \"a\" },\n"          # 'int | Str
        "mkn = #'int { =0 => 1 },\n"                 # 'int | []
        "mkt = #'int { =0 => A[1] | B[\"x\"] },\n"   # A['int] | B[Str]
        )

MAKERS = [("int", "1"), ("str", "\"a\""), ("int_or_str", "n mk"), ("nil", "[]"), ("int_or_nil", "n mkn"),
          ("a_or_b", "n mkt"), ("a", "A[2]")]

TEMPLATES = [
    ("list.prepend.head", "[Cons[{V1}, Nil], {V2}] %list.prepend ~> %list.head"),
    ("list.append", "[Cons[{V1}, Nil], {V2}] %list.append"),
    ("list.append.head", "[Cons[{V1}, Nil], {V2}] %list.append ~> %list.reverse ~> %list.head"),
    ("dict.put.get", "[[[] %dict.new, 0x6b, {V1}] %dict.put, 0x6a, {V2}] %dict.put [~, 0x6a] %dict.get"),
    ("dict.put.get.first", "[[[] %dict.new, 0x6b, {V1}] %dict.put, 0x6a, {V2}] %dict.put [~, 0x6b] %dict.get"),
]

# consumers applied to the result: a dispatch that is only sound if the inferred type covers the value
CONSUMERS = [
    ("id", ""),
    ("dispatch", " ~> { | =Str[b] => 0 | =[] => 1 | =A[k] => k | =B[s] => 3 | =Cons[h, t] => 4 | =Nil => 5 | ='int => [~, 1] __integer_add__ }"),
]


def programs():
    out = []
    for (tname, tmpl), (n1, v1), (n2, v2), (cname, cons) in itertools.product(TEMPLATES, MAKERS, MAKERS, CONSUMERS):
        body = tmpl.replace("{V1}", v1).replace("{V2}", v2) + cons
        fn = "#'int { n = $, " + body + " }"
        out.append({"name": "gen_calls/%s/%s/%s/%s" % (tname, n1, n2, cname), "defs": DEFS, "fn": fn,
                    "src": DEFS + fn})
    return out


# ---- user-defined generic functions (C01): the type parameter next to concrete parts ----------
# Every generic function USES the concrete part of its parameter in a typed way, so an argument
# outside the declared parameter type (a union accepted where the parameter names one variant,
# an optional accepted for 'int) gets stuck at run time.
GDEFS = (DEFS +
         "mkb = #'int { =0 => Box[1] | Other },\n"             # Box['int] | Other
         "mkp = #'int { =0 => [1, 2] | [] },\n"                # ['int, 'int] | []
         "first = #<'t>Box['t] { .0 },\n"
         "inc = #<'t>['t, 'int] { .1 [~, 1] __integer_add__ },\n"
         "same = #<'t>['t, 't] { .0 },\n"
         "snd = #<'t, 'u>['t, 'u] { .1 },\n"
         "unbox = #<'t>(Box['t] | Nil) { | =Box[x] => x | =Nil => 0 },\n"
         "app = #<'t>['t, #'t -> 'int] { =[x, f] => x f },\n"
         "addone = #'int { [~, 1] __integer_add__ },\n"
         "pairsum = #<'t>[['int, 'int], 't] { .0 __integer_add__ },\n"
         # bodies that use a value of variable type as if it were an int / a tuple
         "addv = #<'t>'t { [~, 1] __integer_add__ },\n"
         "addp = #<'t>['t, 't] { __integer_add__ },\n"
         )

GMAKERS = MAKERS + [("box", "Box[1]"), ("box_or_other", "n mkb"), ("box_of_int_or_str", "Box[n mk]"),
                    ("pair_or_nil", "n mkp"), ("nilcase", "Nil")]

GTEMPLATES = [
    ("first", "{V1} first", 1),
    ("inc", "[{V1}, {V2}] inc", 2),
    ("same", "[{V1}, {V2}] same", 2),
    ("snd", "[{V1}, {V2}] snd", 2),
    ("unbox", "{V1} unbox", 1),
    ("app", "[{V1}, &addone] app", 1),
    ("pairsum", "[{V1}, {V2}] pairsum", 2),
    ("addv", "{V1} addv", 1),
    ("addp", "[{V1}, {V2}] addp", 2),
]

GCONSUMERS = CONSUMERS + [("add", " ~> [~, 1] __integer_add__")]


def generic_programs():
    out = []
    for (tname, tmpl, arity), (cname, cons) in itertools.product(GTEMPLATES, GCONSUMERS):
        pairs = itertools.product(GMAKERS, GMAKERS) if arity == 2 else [(m, ("-", "")) for m in GMAKERS]
        for (n1, v1), (n2, v2) in pairs:
            body = tmpl.replace("{V1}", v1).replace("{V2}", v2) + cons
            fn = "#'int { n = $, " + body + " }"
            out.append({"name": "gen_generic/%s/%s/%s/%s" % (tname, n1, n2, cname), "defs": GDEFS, "fn": fn,
                        "src": GDEFS + fn})
    return out
