"""SQVM — symbolic executor for Quiver bytecode (engine E1, value mode).

The instruction semantics below restate quiver-core/src/executor.rs (handle_* functions and the
frame-exit loop of `step`) one handler at a time.  The bytecode, the value a module evaluates to,
the type-compatibility and canonical-tuple tables all come from the real compiler/core through the
qvdump helper; nothing about the *program* is modelled by hand.  What is modelled by hand (the
trusted base, listed in every evidence file) is: this interpreter and the builtin models in
builtins.py.  Both are validated on every run against the real executor (concrete mode).

Values have concrete shape (tags, arities, function ids) and symbolic leaves (z3 Int / BitVec(64)
terms, opaque binary atoms).  Control forks where a condition is not decided by the path
condition; each fork is kept only if the solver finds `path ∧ cond` satisfiable (unknown keeps
the branch: over-approximating feasibility is sound for "no path violates ..." claims because the
final obligations are still decided by the solver under the path condition).
"""
import sys
import time
import z3

sys.setrecursionlimit(100000)


# ------------------------------------------------------------------------------------------------
# program representation (from qvdump JSON)

def bigint_from_json(j):
    sign, digits = j
    n = 0
    for i, d in enumerate(digits):
        n |= d << (32 * i)
    return -n if sign < 0 else n


def parse_instr(j):
    if isinstance(j, str):
        return (j, None, None)
    (k, v), = j.items()
    if isinstance(v, list):
        return (k, v[0], v[1])
    return (k, v, None)


class Fn:
    __slots__ = ("instrs", "captures", "type_id")

    def __init__(self, j):
        self.instrs = [parse_instr(i) for i in j["instructions"]]
        self.captures = j["captures"]
        self.type_id = j["type_id"]


class Program:
    def __init__(self, bytecode, compat):
        self.raw = bytecode
        self.constants = []
        for c in bytecode["constants"]:
            if "int" in c:
                self.constants.append(("int", bigint_from_json(c["int"])))
            else:
                b = c["bin"]
                # the serialised form of a binary constant is the repository's business (an array
                # of byte numbers today); a textual form is read as its UTF-8 bytes
                self.constants.append(("bin", b.encode("utf-8") if isinstance(b, str) else bytes(b)))
        self.functions = [Fn(f) for f in bytecode["functions"]]
        self.builtins = [b["name"] for b in bytecode["builtins"]]
        self.builtin_info = bytecode["builtins"]
        self.tuples = [(t["name"], [(f[0], f[1]) for f in t["fields"]]) for t in bytecode["tuples"]]
        self.types = bytecode["types"]
        self.entry = bytecode.get("entry")
        self.type_compat = [set(tuple(x) for x in s) for s in compat["type_compatibility"]]
        self.canonical = list(compat["canonical_tuples"])
        self.fn_param_compat = [set(tuple(x) for x in s) for s in compat["function_param_compatibility"]]

    def tuple_by_name(self, name, arity=None):
        out = []
        for i, (n, fs) in enumerate(self.tuples):
            if n == name and (arity is None or len(fs) == arity):
                out.append(i)
        return out

    def canon(self, tid):
        return self.canonical[tid] if tid < len(self.canonical) else tid


# ------------------------------------------------------------------------------------------------
# values

class VInt:
    __slots__ = ("v",)

    def __init__(self, v):
        self.v = v

    def __repr__(self):
        return "Int(%s)" % (self.v,)


class Atom:
    """An opaque symbolic binary: a key whose bytes are not modelled.  Distinct atoms denote
    distinct byte strings (stated assumption of the checks that use atoms)."""
    __slots__ = ("name",)

    def __init__(self, name):
        self.name = name

    def __repr__(self):
        return "Atom(%s)" % self.name


class VBin:
    __slots__ = ("b",)

    def __init__(self, b):
        self.b = b

    def __repr__(self):
        return "Bin(%r)" % (self.b,)


class VTuple:
    __slots__ = ("tid", "f")

    def __init__(self, tid, f=()):
        self.tid = tid
        self.f = tuple(f)

    def __repr__(self):
        return "T%d%r" % (self.tid, list(self.f))


class VFn:
    __slots__ = ("fid", "caps")

    def __init__(self, fid, caps=()):
        self.fid = fid
        self.caps = tuple(caps)

    def __repr__(self):
        return "Fn%d%r" % (self.fid, list(self.caps))


class VBuiltin:
    __slots__ = ("bid",)

    def __init__(self, bid):
        self.bid = bid

    def __repr__(self):
        return "Builtin%d" % self.bid


class VRef:
    __slots__ = ("r",)

    def __init__(self, r):
        self.r = r


NIL = VTuple(0)
OK = VTuple(1)


def is_nil(v):
    return isinstance(v, VTuple) and v.tid == 0 and len(v.f) == 0


def type_name(v):
    if isinstance(v, VInt):
        return "integer"
    if isinstance(v, VBin):
        return "binary"
    if isinstance(v, VTuple):
        return "tuple"
    if isinstance(v, VFn):
        return "function"
    if isinstance(v, VBuiltin):
        return "builtin"
    if isinstance(v, VRef):
        return "ref"
    return "?"


def concrete_type(v):
    if isinstance(v, VInt):
        return ("int",)
    if isinstance(v, VBin):
        return ("bin",)
    if isinstance(v, VTuple):
        return ("tuple", v.tid)
    if isinstance(v, VFn):
        return ("fn", v.fid)
    if isinstance(v, VBuiltin):
        return ("builtin", v.bid)
    if isinstance(v, VRef):
        return ("ref",)
    raise Unsupported("concrete_type of %r" % (v,))


def value_from_json(j):
    t = j["t"]
    if t == "int":
        return VInt(int(j["v"]))
    if t == "bin":
        return VBin(bytes(j["v"]))
    if t == "tuple":
        return VTuple(j["id"], [value_from_json(x) for x in j["v"]])
    if t == "fn":
        return VFn(j["id"], [value_from_json(x) for x in j["v"]])
    if t == "builtin":
        return VBuiltin(j["id"])
    if t == "ref":
        return VRef(j["v"])
    raise Unsupported("value kind " + t)


def value_to_json(v, model=None, atom_bytes=None):
    """Concretise a value (under a z3 model if it has symbolic leaves) to qvdump's JSON."""
    if isinstance(v, VInt):
        x = v.v
        if not isinstance(x, int):
            if model is None:
                raise Unsupported("symbolic int without model")
            e = model.eval(x, model_completion=True)
            if z3.is_bv(e):
                x = e.as_signed_long()
            else:
                x = e.as_long()
        return {"t": "int", "v": str(x)}
    if isinstance(v, VBin):
        b = v.b
        if isinstance(b, Atom):
            if atom_bytes is None or b.name not in atom_bytes:
                raise Unsupported("atom without bytes")
            b = atom_bytes[b.name]
        return {"t": "bin", "v": list(b)}
    if isinstance(v, VTuple):
        return {"t": "tuple", "id": v.tid, "v": [value_to_json(x, model, atom_bytes) for x in v.f]}
    if isinstance(v, VFn):
        return {"t": "fn", "id": v.fid, "v": [value_to_json(x, model, atom_bytes) for x in v.caps]}
    if isinstance(v, VBuiltin):
        return {"t": "builtin", "id": v.bid}
    if isinstance(v, VRef):
        return {"t": "ref", "v": v.r}
    raise Unsupported("value_to_json %r" % (v,))


# ------------------------------------------------------------------------------------------------

class Unsupported(Exception):
    pass


class TimeBudget(Exception):
    """the wall-clock budget of one exploration is used up (reported as bounded, never as success)"""


class VMError(Exception):
    """A runtime error of the VM (quiver_core::Error).  kind = variant name."""

    def __init__(self, kind, detail=""):
        Exception.__init__(self, kind + ": " + detail)
        self.kind = kind
        self.detail = detail


# Error kinds that are VM-level type failures in the sense of C01 (never allowed in an accepted
# program), as opposed to documented value-domain errors (InvalidArgument).
STUCK_KINDS = {
    "StackUnderflow", "CallInvalid", "FunctionUndefined", "BuiltinUndefined", "FrameUnderflow",
    "VariableUndefined", "ConstantUndefined", "FieldAccessInvalid", "TypeMismatch", "ArityMismatch",
    "TupleEmpty", "ScopeCountInvalid", "ScopeUnderflow",
}


def conj(conds):
    conds = [c for c in conds if c is not True]
    if any(c is False for c in conds):
        return False
    if not conds:
        return True
    if len(conds) == 1:
        return conds[0]
    return z3.And(*conds)


def neg(c):
    if c is True:
        return False
    if c is False:
        return True
    return z3.Not(c)


class Alt:
    """One alternative outcome of a forking operation."""
    __slots__ = ("cond", "facts", "value", "error", "unsupported", "side")

    def __init__(self, cond=True, value=None, error=None, facts=(), unsupported=None, side=()):
        self.cond = cond
        self.facts = list(facts)
        self.value = value
        self.error = error
        self.unsupported = unsupported
        self.side = list(side)   # [(condition that must be unsatisfiable on this path, message)]


class State:
    __slots__ = ("frames", "stack", "locals", "steps", "side", "notes", "calls")

    def __init__(self):
        self.frames = []   # [fid, pc, locals_base, captures_count]
        self.stack = []
        self.locals = []
        self.steps = 0
        self.side = []     # side obligations: (cond_that_must_be_unsat, description)
        self.notes = []
        self.calls = 0

    def clone(self):
        s = State()
        s.frames = [list(f) for f in self.frames]
        s.stack = list(self.stack)
        s.locals = list(self.locals)
        s.steps = self.steps
        s.side = list(self.side)
        s.notes = list(self.notes)
        s.calls = self.calls
        return s


class Outcome:
    __slots__ = ("kind", "value", "error", "detail", "state", "path")

    def __init__(self, kind, state, path, value=None, error=None, detail=""):
        self.kind = kind        # 'value' | 'error' | 'unsupported' | 'bound'
        self.value = value
        self.error = error
        self.detail = detail
        self.state = state
        self.path = path        # list of z3 conditions / facts on this path


class Stats:
    def __init__(self):
        self.paths = 0
        self.instructions = 0
        self.forks = 0
        self.feas_queries = 0
        self.feas_unknown = 0
        self.solver_s = 0.0
        self.pruned = 0
        self.cache_hits = 0
        self.side_queries = 0


class Machine:
    def __init__(self, program, builtins, solver=None, max_steps=20000, feas_timeout_ms=3000,
                 max_paths=200000):
        self.p = program
        self.b = builtins
        self.solver = solver
        self.max_steps = max_steps
        self.feas_timeout_ms = feas_timeout_ms
        self.max_paths = max_paths
        self.stats = Stats()
        self.path = []
        self.on_outcome = None
        self.trace_hook = None
        self.model = None
        self.deadline = None      # absolute time.time() after which exploration stops (TimeBudget)
        # the alternatives produced by Equal and by the builtin models are exhaustive (their
        # conditions cover every case), which lets the last one be taken without a query when all
        # the others were refuted
        self.exhaustive_alts = True

    # -- solver helpers --------------------------------------------------------------------
    def feasible(self):
        """Is the solver's current assertion stack satisfiable?  Returns (bool, model or None)."""
        if self.solver is None:
            return True, None
        self.stats.feas_queries += 1
        t0 = time.time()
        self.solver.set("timeout", self.feas_timeout_ms)
        r = self.solver.check()
        self.stats.solver_s += time.time() - t0
        if r == z3.unsat:
            return False, None
        if r == z3.unknown:
            self.stats.feas_unknown += 1
            return True, None
        return True, self.solver.model()

    # -- entry -----------------------------------------------------------------------------
    def run(self, fn, arg, on_outcome, assumptions=()):
        """Explore every path of `fn(arg)`; call on_outcome(Outcome) at each path end."""
        self.on_outcome = on_outcome
        self.path = []
        st = State()
        if not isinstance(fn, VFn):
            raise Unsupported("run on non-function")
        for c in fn.caps:
            st.locals.append(c)
        st.stack.append(arg)
        st.frames.append([fn.fid, 0, 0, len(fn.caps)])
        if self.solver is not None:
            self.solver.push()
            for a in assumptions:
                self.solver.add(a)
                self.path.append(a)
        self.model = None
        try:
            self._explore(st)
        finally:
            if self.solver is not None:
                self.solver.pop()

    def _finish(self, kind, st, **kw):
        self.stats.paths += 1
        if self.stats.paths > self.max_paths:
            raise Unsupported("path budget exceeded")
        if st.side and self.solver is not None and kind in ("value", "error"):
            # the model is only exact on this path if none of the side conditions (e.g. 64-bit
            # overflow of a BV-mode addition) can occur
            self.stats.side_queries += 1
            t0 = time.time()
            self.solver.push()
            self.solver.add(z3.Or(*[c for c, _ in st.side]))
            self.solver.set("timeout", self.feas_timeout_ms)
            r = self.solver.check()
            self.solver.pop()
            self.stats.solver_s += time.time() - t0
            if r != z3.unsat:
                kind = "unsupported"
                kw = {"detail": "side condition not excluded: " + "; ".join(sorted(set(m for _, m in st.side)))[:200]}
        self.on_outcome(Outcome(kind, st, list(self.path), **kw))

    def _fork(self, st, alts, apply):
        """alts: list of Alt.  apply(state, alt) mutates the cloned state for value alts."""
        for a in alts:
            if a.cond is not True and a.cond is not False:
                c = z3.simplify(a.cond)
                if z3.is_true(c):
                    a.cond = True
                elif z3.is_false(c):
                    a.cond = False
        live = [a for a in alts if a.cond is not False]
        if len(live) > 1:
            self.stats.forks += 1
        cached = self.model          # a model of the current path (or None)
        any_feasible = False
        for k, a in enumerate(live):
            symbolic = a.cond is not True or a.facts
            if symbolic and self.solver is not None:
                self.solver.push()
                added = 0
                if a.cond is not True:
                    self.solver.add(a.cond)
                    self.path.append(a.cond)
                    added += 1
                for f in a.facts:
                    self.solver.add(f)
                    self.path.append(f)
                    added += 1
                ok = True
                mdl = None
                # facts alone (definitions of fresh variables) never make a path infeasible
                if a.cond is not True and len(live) > 1:
                    if cached is not None and z3.is_true(cached.eval(a.cond, model_completion=True)):
                        mdl = cached               # the cached model already witnesses this branch
                        self.stats.cache_hits += 1
                    elif k == len(live) - 1 and not any_feasible and self.exhaustive_alts:
                        ok = True                  # the path is feasible and every other branch is not
                        self.stats.cache_hits += 1
                    else:
                        ok, mdl = self.feasible()
                elif a.cond is True and not a.facts:
                    mdl = cached
                if ok:
                    any_feasible = True
                    self.model = mdl if not a.facts else None
                    self._take(st, a, apply, clone=(len(live) > 1))
                else:
                    self.stats.pruned += 1
                del self.path[len(self.path) - added:]
                self.solver.pop()
            else:
                if symbolic and self.solver is None:
                    raise Unsupported("symbolic fork without solver")
                any_feasible = True
                self.model = cached
                self._take(st, a, apply, clone=(len(live) > 1))
        self.model = cached

    def _take(self, st, a, apply, clone):
        s2 = st.clone() if clone else st
        if a.error is not None:
            self._finish("error", s2, error=a.error[0], detail=a.error[1])
            return
        if a.unsupported is not None:
            self._finish("unsupported", s2, detail=a.unsupported)
            return
        if a.side:
            s2.side.extend(a.side)
        apply(s2, a)
        self._explore(s2)

    # -- equality (executor.rs values_equal) -----------------------------------------------
    def values_equal(self, a, b):
        if isinstance(a, VInt) and isinstance(b, VInt):
            return self.b.int_eq(a.v, b.v)
        if isinstance(a, VBin) and isinstance(b, VBin):
            return self.b.bin_eq(a.b, b.b)
        if isinstance(a, VTuple) and isinstance(b, VTuple):
            if self.p.canon(a.tid) != self.p.canon(b.tid) or len(a.f) != len(b.f):
                return False
            return conj([self.values_equal(x, y) for x, y in zip(a.f, b.f)])
        if isinstance(a, VFn) and isinstance(b, VFn):
            if a.fid != b.fid or len(a.caps) != len(b.caps):
                return False
            return conj([self.values_equal(x, y) for x, y in zip(a.caps, b.caps)])
        if isinstance(a, VBuiltin) and isinstance(b, VBuiltin):
            return a.bid == b.bid
        if isinstance(a, VRef) and isinstance(b, VRef):
            return a.r == b.r
        return False

    # -- main loop -------------------------------------------------------------------------
    def _explore(self, st):
        p = self.p
        while True:
            if not st.frames:
                if not st.stack:
                    self._finish("error", st, error="StackUnderflow", detail="finish with empty stack")
                else:
                    self._finish("value", st, value=st.stack[-1])
                return
            fr = st.frames[-1]
            instrs = p.functions[fr[0]].instrs
            pc = fr[1]
            if pc >= len(instrs) or pc < 0:
                # frame exhausted: pop it, clear its locals, bump the caller (executor.rs step)
                st.frames.pop()
                del st.locals[fr[2]:]
                if st.frames:
                    st.frames[-1][1] += 1
                continue
            st.steps += 1
            self.stats.instructions += 1
            if self.deadline is not None and (self.stats.instructions & 255) == 0 and time.time() > self.deadline:
                raise TimeBudget()
            if st.steps > self.max_steps:
                self._finish("bound", st, detail="step bound %d" % self.max_steps)
                return
            op, a, b2 = instrs[pc]
            if self.trace_hook is not None:
                self.trace_hook(st, op, a)
            try:
                forked = self._step(st, fr, op, a, b2)
            except VMError as e:
                self._finish("error", st, error=e.kind, detail=e.detail)
                return
            except Unsupported as e:
                self._finish("unsupported", st, detail=str(e))
                return
            if forked:
                return

    def _pop(self, st):
        if not st.stack:
            raise VMError("StackUnderflow")
        return st.stack.pop()

    def _step(self, st, fr, op, a, b2):
        """Execute one instruction.  Returns True if control was handed to _fork."""
        p = self.p
        stack = st.stack
        if op == "Constant":
            if a >= len(p.constants):
                raise VMError("ConstantUndefined", str(a))
            k, v = p.constants[a]
            stack.append(VInt(v) if k == "int" else VBin(v))
            fr[1] += 1
        elif op == "Pop":
            self._pop(st)
            fr[1] += 1
        elif op == "Duplicate":
            if not stack:
                raise VMError("StackUnderflow")
            stack.append(stack[-1])
            fr[1] += 1
        elif op == "Pick":
            if len(stack) <= a:
                raise VMError("StackUnderflow")
            stack.append(stack[len(stack) - 1 - a])
            fr[1] += 1
        elif op == "Rotate":
            n = len(stack)
            if n < a:
                raise VMError("StackUnderflow")
            if a == 0:
                raise VMError("Panic", "Rotate(0): Vec::remove(len) panics")
            item = stack.pop(n - a)
            stack.append(item)
            fr[1] += 1
        elif op == "Load":
            idx = fr[2] + a
            if idx >= len(st.locals):
                raise VMError("VariableUndefined", "local[%d]" % a)
            stack.append(st.locals[idx])
            fr[1] += 1
        elif op == "Store":
            st.locals.append(self._pop(st))
            fr[1] += 1
        elif op == "Tuple":
            if a >= len(p.tuples):
                raise VMError("TypeMismatch", "unknown tuple type %d" % a)
            size = len(p.tuples[a][1])
            vals = []
            for _ in range(size):
                vals.append(self._pop(st))
            vals.reverse()
            stack.append(VTuple(a, vals))
            fr[1] += 1
        elif op == "Get":
            v = self._pop(st)
            if not isinstance(v, VTuple):
                raise VMError("TypeMismatch", "Get on " + type_name(v))
            if a >= len(v.f):
                raise VMError("FieldAccessInvalid", str(a))
            stack.append(v.f[a])
            fr[1] += 1
        elif op == "IsType":
            v = self._pop(st)
            ok = a < len(p.type_compat) and concrete_type(v) in p.type_compat[a]
            stack.append(OK if ok else NIL)
            fr[1] += 1
        elif op == "Jump":
            fr[1] = fr[1] + a + 1
        elif op == "JumpIf":
            c = self._pop(st)
            if not is_nil(c):
                fr[1] = fr[1] + a + 1
            else:
                fr[1] += 1
        elif op == "Not":
            v = self._pop(st)
            stack.append(OK if is_nil(v) else NIL)
            fr[1] += 1
        elif op == "Reset":
            target = fr[2] + a
            if target > len(st.locals):
                raise VMError("StackUnderflow", "Reset beyond locals")
            del st.locals[target:]
            fr[1] += 1
        elif op == "Function":
            if a >= len(p.functions):
                raise VMError("FunctionUndefined", str(a))
            n = p.functions[a].captures
            caps = []
            for _ in range(n):
                caps.append(self._pop(st))
            caps.reverse()
            stack.append(VFn(a, caps))
            fr[1] += 1
        elif op == "Builtin":
            if a >= len(p.builtins):
                raise VMError("BuiltinUndefined", str(a))
            stack.append(VBuiltin(a))
            fr[1] += 1
        elif op == "Equal":
            if a > len(stack):
                raise VMError("StackUnderflow")
            if a == 0:
                raise VMError("Panic", "Equal(0) indexes values[0]")
            vals = stack[len(stack) - a:]
            del stack[len(stack) - a:]
            first = vals[0]
            cond = conj([self.values_equal(first, v) for v in vals])
            if cond is True or cond is False:
                stack.append(first if cond else NIL)
                fr[1] += 1
            else:
                def apply(s, alt):
                    s.stack.append(alt.value)
                    s.frames[-1][1] += 1
                self._fork(st, [Alt(cond, value=first), Alt(neg(cond), value=NIL)], apply)
                return True
        elif op == "Call":
            if not stack:
                raise VMError("StackUnderflow")
            f = stack[-1]
            if isinstance(f, VFn):
                if f.fid >= len(p.functions):
                    raise VMError("FunctionUndefined", str(f.fid))
                stack.pop()
                param = self._pop(st)
                base = len(st.locals)
                stack.append(param)
                st.locals.extend(f.caps)
                st.frames.append([f.fid, 0, base, len(f.caps)])
                st.calls += 1
            elif isinstance(f, VBuiltin):
                stack.pop()
                param = self._pop(st)
                name = p.builtins[f.bid]
                alts = self.b.call(name, param, self)
                if len(alts) == 1 and alts[0].cond is True and not alts[0].facts \
                        and alts[0].error is None and alts[0].unsupported is None:
                    if alts[0].side:
                        st.side.extend(alts[0].side)
                    stack.append(alts[0].value)
                    fr[1] += 1
                else:
                    def apply(s, alt):
                        s.stack.append(alt.value)
                        s.frames[-1][1] += 1
                    self._fork(st, alts, apply)
                    return True
            else:
                raise VMError("TypeMismatch", "Call on " + type_name(f))
        elif op == "TailCall":
            if a:
                arg = self._pop(st)
                del st.locals[fr[2] + fr[3]:]
                stack.append(arg)
                fr[1] = 0
                st.calls += 1
            else:
                f = self._pop(st)
                arg = self._pop(st)
                if not isinstance(f, VFn):
                    raise VMError("CallInvalid")
                if f.fid >= len(p.functions):
                    raise VMError("FunctionUndefined", str(f.fid))
                del st.locals[fr[2]:]
                st.locals.extend(f.caps)
                stack.append(arg)
                fr[0] = f.fid
                fr[1] = 0
                fr[3] = len(f.caps)
                st.calls += 1
        elif op in ("Spawn", "Send", "Self_", "Select", "Process"):
            raise Unsupported("concurrency instruction " + op)
        else:
            raise Unsupported("unknown instruction " + op)
        return False
