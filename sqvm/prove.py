"""Obligation discharge with vacuity guards, shared by the value-mode checks.

prove(goal): asks the solver for `path ∧ ¬goal`; unsat = discharged, sat = candidate
counterexample (handed to the caller's replay), unknown = inconclusive.
witness(): the reachability twin — `path ∧ ¬false` must be satisfiable on every path on which
obligations are discharged, otherwise those verdicts would be vacuous.
"""
import time
import z3


class StopJob(Exception):
    pass


class Prover:
    def __init__(self, solver, timeout_ms, max_failures=3, soft_witness=False):
        self.soft_witness = soft_witness
        self.witness_unknown = 0
        self.s = solver
        self.timeout_ms = timeout_ms
        self.max_failures = max_failures
        self.goals = 0
        self.ok = 0
        self.trivial = 0
        self.failures = []
        self.inconclusive = []
        self.queries = 0
        self.solver_s = 0.0
        self.witnesses = 0
        self.vacuous = 0

    def witness(self, what=""):
        """the asserted point is reached with the assumptions: must be sat"""
        t0 = time.time()
        self.s.set("timeout", getattr(self, "witness_timeout_ms", None) or max(self.timeout_ms, 30000))
        r = self.s.check()
        self.queries += 1
        self.solver_s += time.time() - t0
        if r == z3.sat:
            self.witnesses += 1
            return True
        if r == z3.unsat:
            self.vacuous += 1
            self.inconclusive.append("vacuous path (unsatisfiable path condition) %s" % what)
            return False
        self.witness_unknown += 1
        if not self.soft_witness:
            self.inconclusive.append("reachability witness unknown %s" % what)
        return False

    def prove(self, name, goal, on_sat):
        """on_sat(model) -> counterexample object (reproduced natively) or None"""
        self.goals += 1
        if goal is True:
            self.ok += 1
            self.trivial += 1
            return True
        t0 = time.time()
        self.s.push()
        if goal is not False:
            self.s.add(z3.Not(goal))
        self.s.set("timeout", self.timeout_ms)
        r = self.s.check()
        self.queries += 1
        verdict = False
        if r == z3.unsat:
            self.ok += 1
            verdict = True
        elif r == z3.sat:
            cex = on_sat(self.s)
            if cex is None:
                self.inconclusive.append("%s: model did not reproduce natively" % name)
            else:
                self.failures.append({"goal": name, "cex": cex})
        else:
            self.inconclusive.append("%s: solver %s" % (name, self.s.reason_unknown()))
        self.s.pop()
        self.solver_s += time.time() - t0
        if len(self.failures) >= self.max_failures:
            raise StopJob()
        return verdict
