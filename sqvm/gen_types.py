"""Generated type families for C08/C09: pairs of type expressions put into one program so that
both appear in the real type table, each as a function parameter type (closed, first-order) and
each as a run-time type test over the other.

Program shape (everything the compiler rejects is skipped):

    'l = Nil | Cons['int, ^], 'l2 = ..., 't1 = <e1>, 't2 = <e2>,
    f1 = #('t1 | 't2) { | ='t2 => 1 | 0 },
    f2 = #('t1 | 't2) { | ='t1 => 1 | 0 },
    g1 = #'t1 { 0 }, g2 = #'t2 { 0 },
    [&f1, &f2, &g1, &g2]
"""
import itertools

ALIASES = ("'l = Nil | Cons['int, ^],\n"
           "'lb = Nil | Cons[('int | 'bin), ^],\n"
           "'tr = Leaf | Node[^, 'int, ^],\n"
           "'pth = Root | Path['int, ^],\n"
           "'ch = End | (next: ^),\n")

EXPRS = [
    ("int", "'int"), ("bin", "'bin"), ("nil", "[]"), ("ok", "Ok"), ("a", "A"), ("a_int", "A['int]"),
    ("a_bin", "A['bin]"), ("a_int_or_bin", "A[('int | 'bin)]"), ("p_x", "P[x: 'int]"),
    ("p_xy", "P[x: 'int, y: 'bin]"), ("q_x", "Q[x: 'int]"), ("p_x_opt", "P[x: ('int | [])]"),
    ("partial_x", "(x: 'int)"), ("partial_p_x", "P(x: 'int)"), ("partial_any", "()"), ("partial_ok", "Ok()"),
    ("partial_xy", "(x: 'int, y: 'bin)"), ("partial_x_opt", "(x: ('int | []))"),
    ("pair", "['int, 'int]"), ("pair_opt", "['int, ('int | [])]"), ("pair_of_pairs", "[['int, 'int], 'bin]"),
    ("int_or_nil", "'int | []"), ("a_or_b", "A | B"), ("aint_or_b", "A['int] | B"),
    ("p_or_q", "P[x: 'int] | Q[x: 'int]"), ("int_bin_nil", "'int | 'bin | []"),
    ("list", "'l"), ("list_b", "'lb"), ("tree", "'tr"), ("path", "'pth"), ("path_or_nil", "'pth | []"),
    ("list_or_nil", "'l | []"), ("cons_only", "Cons['int, 'l]"), ("pair_of_lists", "['l, 'lb]"),
    ("a_of_list", "A['l]"), ("a_of_list_b", "A['lb]"),
    ("chain", "'ch"), ("link_int", "Link[next: 'int]"), ("link_end", "Link[next: End]"),
]


def program(e1, e2):
    return (ALIASES + "'t1 = %s,\n't2 = %s,\n" % (e1, e2) +
            "f1 = #('t1 | 't2) { | ='t2 => 1 | 0 },\n"
            "f2 = #('t1 | 't2) { | ='t1 => 1 | 0 },\n"
            "g1 = #'t1 { 0 },\ng2 = #'t2 { 0 },\n"
            # a fixed world of tuples, so that partial types have the same inhabitants everywhere
            "w = #(P[x: 'int, y: 'bin] | P[x: 'int] | Q[x: 'int] | Q[x: 'bin, y: 'bin] | A['int] | ['int, 'int]) { 0 },\n"
            "[&f1, &f2, &g1, &g2, &w]")


def programs():
    out = []
    for (n1, e1), (n2, e2) in itertools.combinations(EXPRS, 2):
        out.append(("gen_types/%s/%s" % (n1, n2), program(e1, e2), e1, e2))
    return out


# ---- recursive types against their unfoldings, in tuples and unions of tuples (C09) -------------
# The relation is coinductive: a pair of recursive types is assumed while it is being derived.
# The shapes that stress that machinery are a recursive type against a one-step unfolding of it
# (the back-reference sits in a nested union), with a variant present at one level and absent at
# another, inside tuples whose alternatives make one derivation fail after another succeeded.
REC_ALIASES = ("'r0 = Nil | Cons['int, ^],\n"
               "'r1 = Nil | Cons['int, ^] | Bad,\n"
               "'u00 = Nil | Cons['int, (Nil | Cons['int, ^])],\n"
               "'u01 = Nil | Cons['int, (Nil | Cons['int, ^] | Bad)],\n"
               "'u10 = Nil | Cons['int, (Nil | Cons['int, ^])] | Bad,\n"
               "'u11 = Nil | Cons['int, (Nil | Cons['int, ^] | Bad)] | Bad,\n")
REC_LT = ["'r0", "'r1", "'u00", "'u01", "'u10", "'u11"]
REC_COMPONENTS = REC_LT + ["Cons['int, %s]" % t for t in REC_LT] + ["'int"]


def rec_left_types():
    return ["P[%s, %s]" % (x, y) for x in REC_COMPONENTS for y in REC_COMPONENTS]


def rec_right_types():
    tuples = rec_left_types()
    out = []
    for i in range(len(tuples)):
        for j in range(i + 1, len(tuples)):
            out.append("%s | %s" % (tuples[i], tuples[j]))
    return out


def rec_program(lefts, rights):
    """one program whose value is [&a0, ..., &b0, ...]: function i has parameter type lefts[i] /
    rights[i], which is how the types are found in the real table"""
    lines = [REC_ALIASES]
    for i, t in enumerate(lefts):
        lines.append("a%d = #%s { 0 },\n" % (i, t))
    for i, t in enumerate(rights):
        lines.append("b%d = #(%s) { 0 },\n" % (i, t))
    lines.append("[" + ", ".join(["&a%d" % i for i in range(len(lefts))] + ["&b%d" % i for i in range(len(rights))]) + "]")
    return "".join(lines)
