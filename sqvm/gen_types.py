"""Generated type families for C08/C09: pairs of type expressions put into one program so that
both appear in the real type table, each as a function parameter type (closed, first-order) and
each as a run-time type test over the other.

Program shape (everything the compiler rejects is skipped):

    'l = Nil | Cons['int, ^], 'l2 = ..., 't1 = <e1>, 't2 = <e2>,
    f1 = #('t1 | 't2) { | ='t2 => 1 | 0 },
    f2 = #('t1 | 't2) { | ='t1 => 1 | 0 },
    g1 = #'t1 { 0 }, g2 = #'t2 { 0 },
    [&f1, &f2, &g1, &g2]
"""
import itertools

ALIASES = ("'l = Nil | Cons['int, ^],\n"
           "'lb = Nil | Cons[('int | 'bin), ^],\n"
           "'tr = Leaf | Node[^, 'int, ^],\n"
           "'pth = Root | Path['int, ^],\n")

EXPRS = [
    ("int", "'int"), ("bin", "'bin"), ("nil", "[]"), ("ok", "Ok"), ("a", "A"), ("a_int", "A['int]"),
    ("a_bin", "A['bin]"), ("a_int_or_bin", "A[('int | 'bin)]"), ("p_x", "P[x: 'int]"),
    ("p_xy", "P[x: 'int, y: 'bin]"), ("q_x", "Q[x: 'int]"), ("p_x_opt", "P[x: ('int | [])]"),
    ("partial_x", "(x: 'int)"), ("partial_p_x", "P(x: 'int)"), ("partial_any", "()"), ("partial_ok", "Ok()"),
    ("partial_xy", "(x: 'int, y: 'bin)"), ("partial_x_opt", "(x: ('int | []))"),
    ("pair", "['int, 'int]"), ("pair_opt", "['int, ('int | [])]"), ("pair_of_pairs", "[['int, 'int], 'bin]"),
    ("int_or_nil", "'int | []"), ("a_or_b", "A | B"), ("aint_or_b", "A['int] | B"),
    ("p_or_q", "P[x: 'int] | Q[x: 'int]"), ("int_bin_nil", "'int | 'bin | []"),
    ("list", "'l"), ("list_b", "'lb"), ("tree", "'tr"), ("path", "'pth"), ("path_or_nil", "'pth | []"),
    ("list_or_nil", "'l | []"), ("cons_only", "Cons['int, 'l]"), ("pair_of_lists", "['l, 'lb]"),
    ("a_of_list", "A['l]"), ("a_of_list_b", "A['lb]"),
]


def program(e1, e2):
    return (ALIASES + "'t1 = %s,\n't2 = %s,\n" % (e1, e2) +
            "f1 = #('t1 | 't2) { | ='t2 => 1 | 0 },\n"
            "f2 = #('t1 | 't2) { | ='t1 => 1 | 0 },\n"
            "g1 = #'t1 { 0 },\ng2 = #'t2 { 0 },\n"
            # a fixed world of tuples, so that partial types have the same inhabitants everywhere
            "w = #(P[x: 'int, y: 'bin] | P[x: 'int] | Q[x: 'int] | Q[x: 'bin, y: 'bin] | A['int] | ['int, 'int]) { 0 },\n"
            "[&f1, &f2, &g1, &g2, &w]")


def programs():
    out = []
    for (n1, e1), (n2, e2) in itertools.combinations(EXPRS, 2):
        out.append(("gen_types/%s/%s" % (n1, n2), program(e1, e2), e1, e2))
    return out
