"""SQVM abstract mode (C07 / C16): values are dropped, the state is (pc, h, l) = program counter,
operand-stack height above the frame's entry (the argument counts: h = 1 at pc 0) and number of
locals above locals_base (captures count at pc 0).  Branch outcomes are free Booleans, so the
paths of the encoding are exactly the control-flow paths of the function.

Per function the CFG is first checked to be acyclic (loops only exist through TailCall in the
bytecode the compiler emits); then ONE z3 query asks for a path (copy A) — and, for the join
condition, a second path (copy B) — on which some well-formedness condition fails.  `unsat` is a
statement about every path of that function.

The instruction-effect table below is the trusted base; it restates the handle_* functions of
executor.rs and is validated on every run against single-stepped real executions, and
counterexample paths are re-derived independently by the Rust helper (`walk`).
"""
import z3

TWO_PATH_KINDS = ("inconsistent-height-at-join", "store-slot-depends-on-path")


def effect(program, ins):
    """(need, delta_h, locals_effect) with locals_effect = ('add', k) | ('set', k) | None.
    Also returns static index problems.  `need` is the number of operands the instruction takes
    from the stack."""
    op, a, b = ins
    bad = None
    le = None
    if op == "Constant":
        if a >= len(program.constants):
            bad = "constant index %d out of range" % a
        r = (0, 1)
    elif op == "Pop":
        r = (1, -1)
    elif op == "Duplicate":
        r = (1, 1)
    elif op == "Pick":
        r = (a + 1, 1)
    elif op == "Rotate":
        if a == 0:
            bad = "Rotate(0) panics in Vec::remove"
        r = (a, 0)
    elif op == "Reset":
        r = (0, 0)
        le = ("set", a)
    elif op == "Load":
        r = (0, 1)
        le = ("load", a)
    elif op == "Store":
        r = (1, -1)
        le = ("add", 1)
    elif op == "Tuple":
        if a >= len(program.tuples):
            bad = "tuple index %d out of range" % a
            r = (0, 1)
        else:
            n = len(program.tuples[a][1])
            r = (n, 1 - n)
    elif op == "Get":
        r = (1, 0)
    elif op == "IsType":
        if a >= len(program.types):
            bad = "type index %d out of range" % a
        r = (1, 0)
    elif op == "Jump":
        r = (0, 0)
    elif op == "JumpIf":
        r = (1, -1)
    elif op == "Call":
        r = (2, -1)
    elif op == "TailCall":
        r = (1, 0) if a else (2, 0)
    elif op == "Function":
        if a >= len(program.functions):
            bad = "function index %d out of range" % a
            r = (0, 1)
        else:
            n = program.functions[a].captures
            r = (n, 1 - n)
    elif op == "Builtin":
        if a >= len(program.builtins):
            bad = "builtin index %d out of range" % a
        r = (0, 1)
    elif op == "Equal":
        if a == 0:
            bad = "Equal(0) indexes values[0]"
        r = (a, 1 - a)
    elif op == "Not":
        r = (1, 0)
    elif op == "Spawn":
        r = (2, -1)
    elif op == "Send":
        r = (2, -1)
    elif op == "Self_":
        r = (0, 1)
    elif op == "Select":
        r = (1, 0)
    elif op == "Process":
        if b is not None and b >= len(program.functions):
            bad = "process function index %d out of range" % b
        r = (0, 1)
    else:
        bad = "unknown instruction " + op
        r = (0, 0)
    return r[0], r[1], le, bad


def successors(instrs, i):
    """list of (target, kind) with kind in 'next' | 'jump'; targets are raw (may be out of range)."""
    op, a, _ = instrs[i]
    if op == "Jump":
        return [(i + a + 1, "jump")]
    if op == "JumpIf":
        return [(i + 1, "next"), (i + a + 1, "jump")]
    if op == "TailCall":
        return []
    return [(i + 1, "next")]


def find_cycle(instrs):
    n = len(instrs)
    color = [0] * (n + 1)
    stack = [(0, iter([t for t, _ in successors(instrs, 0)]))] if n else []
    if n:
        color[0] = 1
    while stack:
        node, it = stack[-1]
        adv = False
        for t in it:
            if t < 0 or t >= n:
                continue
            if color[t] == 1:
                return (node, t)
            if color[t] == 0:
                color[t] = 1
                stack.append((t, iter([x for x, _ in successors(instrs, t)])))
                adv = True
                break
        if not adv:
            color[node] = 2
            stack.pop()
    return None


class FnResult:
    def __init__(self):
        self.verdict = None      # 'unsat' | 'sat' | 'unknown' | 'cyclic'
        self.violations = []     # list of dicts {kind, pc, path, detail}
        self.static = []         # static index problems [(pc, msg)]
        self.tailcalls = 0
        self.solver_s = 0.0
        self.nodes = 0
        self.edges = 0
        self.assertions = 0


def check_function(program, fid, timeout_ms=60000, want=("c07", "c16")):
    """Decide well-formedness (C07) and tail-call height discipline (C16) of one function."""
    import time
    fn = program.functions[fid]
    instrs = fn.instrs
    n = len(instrs)
    res = FnResult()
    res.nodes = n + 1
    effs = []
    for i, ins in enumerate(instrs):
        need, dh, le, bad = effect(program, ins)
        effs.append((need, dh, le))
        if bad:
            res.static.append((i, bad))
        if ins[0] == "TailCall":
            res.tailcalls += 1
    cyc = find_cycle(instrs)
    if cyc is not None:
        res.verdict = "cyclic"
        res.violations = []
        res.cycle = cyc
        return res

    # nodes reachable from the entry (dead code cannot be on any path)
    reach = set()
    work = [0] if n else []
    while work:
        x = work.pop()
        if x in reach or x < 0 or x > n:
            continue
        reach.add(x)
        if x < n:
            for t, _ in successors(instrs, x):
                work.append(t)
    if n == 0:
        reach.add(0)

    s = z3.Solver()
    s.set("timeout", timeout_ms)

    def copy(tag):
        on = [z3.Bool("on%s_%d" % (tag, i)) for i in range(n + 1)]
        h = [z3.Int("h%s_%d" % (tag, i)) for i in range(n + 1)]
        l = [z3.Int("l%s_%d" % (tag, i)) for i in range(n + 1)]
        br = {}
        oob = []         # (pc, edge-taken condition) for out-of-range jump targets
        incoming = [[] for _ in range(n + 1)]
        s.add(on[0] if n >= 0 else True)
        s.add(h[0] == 1, l[0] == fn.captures)
        for i in range(n):
            need, dh, le = effs[i]
            succ = successors(instrs, i)
            if instrs[i][0] == "JumpIf":
                br[i] = z3.Bool("br%s_%d" % (tag, i))
            for (t, kind) in succ:
                if instrs[i][0] == "JumpIf":
                    taken = z3.And(on[i], br[i] if kind == "jump" else z3.Not(br[i]))
                else:
                    taken = on[i]
                if t < 0 or t > n:
                    oob.append((i, taken, t))
                    continue
                res.edges += 1
                if le is None or le[0] == "load":
                    lnew = l[i]
                elif le[0] == "add":
                    lnew = l[i] + le[1]
                else:
                    lnew = z3.IntVal(le[1])
                incoming[t].append(taken)
                s.add(z3.Implies(taken, z3.And(h[t] == h[i] + dh, l[t] == lnew)))
        for j in range(1, n + 1):
            if j not in reach:
                s.add(z3.Not(on[j]))
            else:
                s.add(on[j] == (z3.Or(*incoming[j]) if incoming[j] else z3.BoolVal(False)))
        return on, h, l, br, oob

    onA, hA, lA, brA, oobA = copy("A")
    onB, hB, lB, brB, oobB = copy("B")

    bads = []  # (bool term, kind, pc)
    for i in range(n):
        need, dh, le = effs[i]
        op = instrs[i][0]
        if need > 0:
            bads.append((z3.And(onA[i], hA[i] < need), "stack-underflow", i))
        if le is not None and le[0] == "load":
            bads.append((z3.And(onA[i], lA[i] <= le[1]), "load-undefined-local", i))
        if le is not None and le[0] == "set":
            bads.append((z3.And(onA[i], lA[i] < le[1]), "reset-beyond-locals", i))
        if op == "TailCall" and "c16" in want:
            exact = 1 if instrs[i][1] else 2
            bads.append((z3.And(onA[i], hA[i] != exact), "tailcall-leaves-stack-cells", i))
        bads.append((z3.And(onA[i], onB[i], hA[i] != hB[i]), "inconsistent-height-at-join", i))
        if le is not None and le[0] == "add":
            # a Store appends at position l: the slot a binding gets must not depend on the path
            bads.append((z3.And(onA[i], onB[i], lA[i] != lB[i]), "store-slot-depends-on-path", i))
    bads.append((z3.And(onA[n], hA[n] != 1), "exit-height-not-one", n))
    bads.append((z3.And(onA[n], onB[n], hA[n] != hB[n]), "inconsistent-height-at-join", n))
    for (i, taken, t) in oobA:
        bads.append((taken, "jump-out-of-range(target %d)" % t, i))
    flags = [z3.Bool("bad_%d" % k) for k in range(len(bads))]
    for f, (term, _, _) in zip(flags, bads):
        s.add(f == term)
    s.add(z3.Or(*flags) if flags else z3.BoolVal(False))
    res.assertions = len(s.assertions())
    t0 = time.time()
    r = s.check()
    res.solver_s = time.time() - t0
    if r == z3.unsat:
        res.verdict = "unsat"
        return res
    if r == z3.unknown:
        res.verdict = "unknown"
        return res
    res.verdict = "sat"
    m = s.model()
    for f, (term, kind, pc) in zip(flags, bads):
        if z3.is_true(m.eval(f, model_completion=True)):
            # reconstruct path A (and B for join conditions) as branch decisions
            def path_of(on, br):
                decisions = []
                pcs = []
                i = 0
                guard = 0
                while 0 <= i < n and guard <= n + 1:
                    guard += 1
                    pcs.append(i)
                    if i == pc and kind not in TWO_PATH_KINDS and kind != "exit-height-not-one":
                        break
                    op = instrs[i][0]
                    if op == "JumpIf":
                        d = z3.is_true(m.eval(br[i], model_completion=True))
                        decisions.append(bool(d))
                        i = i + instrs[i][1] + 1 if d else i + 1
                    elif op == "Jump":
                        i = i + instrs[i][1] + 1
                    elif op == "TailCall":
                        break
                    else:
                        i += 1
                    if i == pc and kind in TWO_PATH_KINDS:
                        pcs.append(i)
                        break
                return decisions, pcs
            dA, pA = path_of(onA, brA)
            v = {"kind": kind, "pc": pc, "decisions": dA, "pcs": pA,
                 "h": m.eval(hA[pc], model_completion=True).as_long(),
                 "l": m.eval(lA[pc], model_completion=True).as_long()}
            if kind in TWO_PATH_KINDS:
                dB, pB = path_of(onB, brB)
                v["decisions_b"] = dB
                v["pcs_b"] = pB
                v["h_b"] = m.eval(hB[pc], model_completion=True).as_long()
                v["l_b"] = m.eval(lB[pc], model_completion=True).as_long()
            res.violations.append(v)
            break
    return res



# ------------------------------------------------------------------------------------------------
# Basic-block encoding (same claim, ~10x smaller query): straight-line runs are summarised
# symbolically — net height change, the minimal entry height they need, the locals they need and
# produce — and the path variables live on block leaders only.  Heights and local counts are
# 16-bit vectors (a function has < 2^15 instructions, so neither can wrap before an underflow is
# flagged).  check_function_blocks and check_function must agree; the check cross-validates them
# on a sample every run.

W = 16


def _blocks(instrs):
    n = len(instrs)
    leaders = {0}
    for i in range(n):
        op = instrs[i][0]
        if op in ("Jump", "JumpIf", "TailCall"):
            if i + 1 < n:
                leaders.add(i + 1)
            for t, _ in successors(instrs, i):
                if 0 <= t < n:
                    leaders.add(t)
    leaders = sorted(leaders)
    blocks = []
    for k, start in enumerate(leaders):
        end = leaders[k + 1] if k + 1 < len(leaders) else n
        blocks.append((start, end))
    return blocks


def check_function_blocks(program, fid, timeout_ms=60000, want=("c07", "c16")):
    import time
    fn = program.functions[fid]
    instrs = fn.instrs
    n = len(instrs)
    res = FnResult()
    res.nodes = n + 1
    effs = []
    for i, ins in enumerate(instrs):
        need, dh, le, bad = effect(program, ins)
        effs.append((need, dh, le))
        if bad:
            res.static.append((i, bad))
        if ins[0] == "TailCall":
            res.tailcalls += 1
    cyc = find_cycle(instrs)
    if cyc is not None:
        res.verdict = "cyclic"
        res.cycle = cyc
        return res
    if n >= (1 << (W - 1)):
        res.verdict = "unknown"
        return res
    blocks = _blocks(instrs) if n else []
    bidx = {b[0]: k for k, b in enumerate(blocks)}
    nb = len(blocks)
    EXIT = nb   # pseudo block for pc == n

    # reachability over blocks
    succs = []
    for (start, end) in blocks:
        last = end - 1
        out = []
        for (t, kind) in successors(instrs, last):
            out.append((t, kind))
        succs.append(out)
    reach = set()
    work = [0] if nb else []
    while work:
        x = work.pop()
        if x in reach:
            continue
        reach.add(x)
        for (t, kind) in succs[x]:
            if t == n:
                reach.add(EXIT)
            elif 0 <= t < n:
                work.append(bidx[t])
    if n == 0:
        reach.add(EXIT)

    s = z3.Solver()
    s.set("timeout", timeout_ms)

    def BV(v):
        return z3.BitVecVal(v, W)

    # block summaries: conditions are expressed over (h_in, l_in)
    summaries = []
    for (start, end) in blocks:
        cum = 0                 # height change so far
        lconst = None           # locals became a constant (after a Reset) + stores since
        ladd = 0                # stores since entry (when lconst is None)
        hreq = []               # (pc, kind, needed entry height)
        lreq = []               # (pc, kind, k, strict) on l_in:  l_in + ladd  > k (strict) / >= k
        static_bad = []         # (pc, kind) violated whenever the block is reached
        tail = None
        store_pc = None         # first Store whose slot depends on the entry locals count
        for i in range(start, end):
            need, dh, le = effs[i]
            op = instrs[i][0]
            if op == "TailCall":
                exact = 1 if instrs[i][1] else 2
                tail = (i, exact, cum)
            if need > 0:
                hreq.append((i, "stack-underflow", need - cum))
            if le is not None:
                if le[0] == "load":
                    if lconst is None:
                        lreq.append((i, "load-undefined-local", le[1] - ladd, True))
                    elif not (lconst > le[1]):
                        static_bad.append((i, "load-undefined-local"))
                elif le[0] == "set":
                    if lconst is None:
                        lreq.append((i, "reset-beyond-locals", le[1] - ladd, False))
                    elif lconst < le[1]:
                        static_bad.append((i, "reset-beyond-locals"))
                    lconst = le[1]
                elif le[0] == "add":
                    if lconst is None:
                        ladd += le[1]
                        if store_pc is None:
                            store_pc = i
                    else:
                        lconst += le[1]
            cum += dh
        summaries.append({"dh": cum, "lconst": lconst, "ladd": ladd, "hreq": hreq, "lreq": lreq,
                          "static": static_bad, "tail": tail, "store_pc": store_pc})

    def copy(tag):
        on = [z3.Bool("on%s_%d" % (tag, k)) for k in range(nb + 1)]
        h = [z3.BitVec("h%s_%d" % (tag, k), W) for k in range(nb + 1)]
        l = [z3.BitVec("l%s_%d" % (tag, k), W) for k in range(nb + 1)]
        br = {}
        oob = []
        incoming = [[] for _ in range(nb + 1)]
        if nb:
            s.add(on[0])
            s.add(h[0] == BV(1), l[0] == BV(fn.captures))
        else:
            s.add(on[EXIT], h[EXIT] == BV(1), l[EXIT] == BV(fn.captures))
        for k, (start, end) in enumerate(blocks):
            sm = summaries[k]
            last = end - 1
            is_cond = instrs[last][0] == "JumpIf"
            if is_cond:
                br[k] = z3.Bool("br%s_%d" % (tag, k))
            hout = h[k] + BV(sm["dh"] & ((1 << W) - 1))
            lout = BV(sm["lconst"]) if sm["lconst"] is not None else l[k] + BV(sm["ladd"])
            for (t, kind) in succs[k]:
                taken = z3.And(on[k], br[k] if kind == "jump" else z3.Not(br[k])) if is_cond else on[k]
                if t < 0 or t > n:
                    oob.append((last, taken, t))
                    continue
                tb = EXIT if t == n else bidx[t]
                res.edges += 1
                incoming[tb].append(taken)
                s.add(z3.Implies(taken, z3.And(h[tb] == hout, l[tb] == lout)))
        for j in range(1, nb + 1):
            if nb == 0:
                break
            if j not in reach:
                s.add(z3.Not(on[j]))
            else:
                s.add(on[j] == (z3.Or(*incoming[j]) if incoming[j] else z3.BoolVal(False)))
        return on, h, l, br, oob

    onA, hA, lA, brA, oobA = copy("A")
    onB, hB, lB, brB, oobB = copy("B")

    bads = []   # (term, kind, pc, block)
    for k, (start, end) in enumerate(blocks):
        sm = summaries[k]
        for (pc, kind, req) in sm["hreq"]:
            if req > 0:
                bads.append((z3.And(onA[k], z3.ULT(hA[k], BV(req))), kind, pc, k))
        for (pc, kind, kk, strict) in sm["lreq"]:
            if strict:
                if kk >= 0:
                    bads.append((z3.And(onA[k], z3.ULE(lA[k], BV(kk))), kind, pc, k))
            else:
                if kk > 0:
                    bads.append((z3.And(onA[k], z3.ULT(lA[k], BV(kk))), kind, pc, k))
        for (pc, kind) in sm["static"]:
            bads.append((onA[k], kind, pc, k))
        if sm["tail"] is not None and "c16" in want:
            pc, exact, cum = sm["tail"]
            bads.append((z3.And(onA[k], hA[k] + BV(cum & ((1 << W) - 1)) != BV(exact)),
                         "tailcall-leaves-stack-cells", pc, k))
        bads.append((z3.And(onA[k], onB[k], hA[k] != hB[k]), "inconsistent-height-at-join", start, k))
        if sm["store_pc"] is not None:
            bads.append((z3.And(onA[k], onB[k], lA[k] != lB[k]), "store-slot-depends-on-path", sm["store_pc"], k))
    bads.append((z3.And(onA[EXIT], hA[EXIT] != BV(1)), "exit-height-not-one", n, EXIT))
    bads.append((z3.And(onA[EXIT], onB[EXIT], hA[EXIT] != hB[EXIT]), "inconsistent-height-at-join", n, EXIT))
    for (i, taken, t) in oobA:
        bads.append((taken, "jump-out-of-range(target %d)" % t, i, None))
    flags = [z3.Bool("bad_%d" % k) for k in range(len(bads))]
    for f, (term, _, _, _) in zip(flags, bads):
        s.add(f == term)
    s.add(z3.Or(*flags) if flags else z3.BoolVal(False))
    res.assertions = len(s.assertions())
    t0 = time.time()
    r = s.check()
    res.solver_s = time.time() - t0
    if r == z3.unsat:
        res.verdict = "unsat"
        return res
    if r == z3.unknown:
        res.verdict = "unknown"
        return res
    res.verdict = "sat"
    m = s.model()

    def decisions_of(br, target_pc, stop_at_target):
        """walk the model's path; returns (decisions, pcs)"""
        decisions = []
        pcs = []
        if not nb:
            return decisions, pcs
        k = 0
        guard = 0
        while guard <= nb + 1:
            guard += 1
            start, end = blocks[k]
            pcs.extend(range(start, end))
            if stop_at_target and start <= target_pc < end:
                break
            last = end - 1
            op = instrs[last][0]
            if op == "JumpIf":
                d = z3.is_true(m.eval(br[k], model_completion=True))
                decisions.append(bool(d))
                t = last + instrs[last][1] + 1 if d else last + 1
            elif op == "Jump":
                t = last + instrs[last][1] + 1
            elif op == "TailCall":
                break
            else:
                t = last + 1
            if t < 0 or t >= n:
                break
            k = bidx[t]
        return decisions, pcs

    for f, (term, kind, pc, k) in zip(flags, bads):
        if z3.is_true(m.eval(f, model_completion=True)):
            stop = kind not in ("exit-height-not-one",)
            dA, pA = decisions_of(brA, pc, stop and pc < n)
            hk = k if k is not None else 0
            v = {"kind": kind, "pc": pc, "decisions": dA, "pcs": pA[:200],
                 "h": m.eval(hA[hk], model_completion=True).as_long(),
                 "l": m.eval(lA[hk], model_completion=True).as_long()}
            if kind in TWO_PATH_KINDS:
                dB, pB = decisions_of(brB, pc, pc < n)
                v["decisions_b"] = dB
                v["pcs_b"] = pB[:200]
                v["h_b"] = m.eval(hB[hk], model_completion=True).as_long()
                v["l_b"] = m.eval(lB[hk], model_completion=True).as_long()
            res.violations.append(v)
            break
    return res


def walk(program, fid, decisions, stop_pc=None):
    """Concrete walk along branch decisions with the same effect table (Python side); the Rust
    helper has an independent implementation used to confirm counterexamples."""
    fn = program.functions[fid]
    instrs = fn.instrs
    n = len(instrs)
    h, l = 1, fn.captures
    i = 0
    k = 0
    trace = []
    while 0 <= i < n:
        trace.append((i, h, l))
        if stop_pc is not None and i == stop_pc:
            break
        need, dh, le, _ = effect(program, instrs[i])
        op = instrs[i][0]
        if le is not None:
            if le[0] == "add":
                l += le[1]
            elif le[0] == "set":
                l = le[1]
        h += dh
        if op == "JumpIf":
            d = decisions[k] if k < len(decisions) else False
            k += 1
            i = i + instrs[i][1] + 1 if d else i + 1
        elif op == "Jump":
            i = i + instrs[i][1] + 1
        elif op == "TailCall":
            break
        else:
            i += 1
    if i == n:
        trace.append((n, h, l))
    return trace
