"""Builtin models for SQVM — the reference definitions shared by E1 (here) and the C12 checks.

Integers are Python ints (concrete), z3 Int terms (unbounded, "Int mode", used for %num) or z3
BitVec(64) terms ("BV mode", used where values flow through the 64-bit bitwise builtins, %dict).
In BV mode add/subtract/multiply/abs are only exact if they do not overflow 64 bits; each such
operation records a *side obligation* on the path ("overflow is unsatisfiable here") that the
caller must discharge, otherwise the path is reported as outside the model.

Every model restates the Rust builtin in quiver-core/src/builtins/{integer,binary}.rs:
  integer_add/subtract/multiply/abs/compare   exact on ℤ
  integer_divide / integer_modulo             truncating (num-bigint `/` `%`), InvalidArgument on 0
  integer_gcd                                 non-negative gcd; symbolic: fresh g with cofactors
  integer_sqrt                                floor sqrt, InvalidArgument on negative
  integer_and/or/xor/not/shift/popcount       i64 semantics; InvalidArgument if an operand does
                                              not fit in i64
  binary_hash32                               FNV-1a (concrete bytes) / uninterpreted per atom
"""
import math
import z3
from .machine import (VInt, VBin, VTuple, VFn, VBuiltin, Atom, NIL, OK, Alt, VMError, Unsupported,
                      type_name, conj, neg)

I64_MIN = -(1 << 63)
I64_MAX = (1 << 63) - 1
MASK64 = (1 << 64) - 1


def is_c(x):
    return isinstance(x, int)


def is_bv(x):
    return z3.is_bv(x)


def to_signed64(u):
    u &= MASK64
    return u - (1 << 64) if u >> 63 else u


def trunc_div(a, b):
    q = abs(a) // abs(b)
    return q if (a >= 0) == (b >= 0) else -q


def trunc_mod(a, b):
    return a - b * trunc_div(a, b)


def fnv1a32(bs):
    h = 2166136261
    for x in bs:
        h = ((h ^ x) * 16777619) & 0xFFFFFFFF
    return h


def fnv1a64(bs):
    h = 14695981039346656037
    for x in bs:
        h = ((h ^ x) * 1099511628211) & MASK64
    return h


def ubits(t, depth=0):
    """Upper bound on the number of significant (unsigned) bits of a 64-bit term, from its syntax.
    Used only to pick a smaller but equivalent encoding (e.g. a shift amount known to be < 64)."""
    if depth > 40:
        return 64
    if z3.is_bv_value(t):
        return t.as_long().bit_length()
    k = t.decl().kind()
    ch = t.children()
    if k == z3.Z3_OP_CONCAT:
        # leading zero constant?
        if z3.is_bv_value(ch[0]) and ch[0].as_long() == 0:
            rest = ch[1:]
            if len(rest) == 1:
                return min(rest[0].size(), ubits(rest[0], depth + 1))
            return sum(c.size() for c in rest)
        return t.size()
    if k == z3.Z3_OP_ZERO_EXT:
        return min(ch[0].size(), ubits(ch[0], depth + 1))
    if k == z3.Z3_OP_EXTRACT:
        return t.size()
    if k == z3.Z3_OP_BAND:
        return min(ubits(c, depth + 1) for c in ch)
    if k in (z3.Z3_OP_BOR, z3.Z3_OP_BXOR):
        return max(ubits(c, depth + 1) for c in ch)
    if k == z3.Z3_OP_ITE:
        return max(ubits(ch[1], depth + 1), ubits(ch[2], depth + 1))
    if k == z3.Z3_OP_BLSHR:
        return ubits(ch[0], depth + 1)
    return t.size()


class Builtins:
    def __init__(self):
        self.fresh = 0
        self.atom_hash = {}       # atom name -> BitVec(32)
        self.gcd_facts = {}       # id(g term) -> (x, y, x1, y1)
        self.gcd_terms = []       # [(g, x, y, x1, y1)]
        self.coprime = z3.Function("coprime", z3.IntSort(), z3.IntSort(), z3.BoolSort())
        self.used = set()
        # fresh-variable models are functional: the same operands get the same fresh variables
        # (needed when two executions are compared, e.g. original vs packaged bytecode)
        self.memo = {}

    # -- small algebra over python ints / z3 Int / z3 BV64 ---------------------------------
    def _fresh(self, prefix, sort="int"):
        self.fresh += 1
        name = "%s!%d" % (prefix, self.fresh)
        return z3.Int(name) if sort == "int" else z3.BitVec(name, 64)

    @staticmethod
    def _coerce(a, b):
        """Bring two operands to a common representation."""
        if is_c(a) and is_c(b):
            return a, b, "c"
        if is_bv(a) or is_bv(b):
            if is_c(a):
                if not (I64_MIN <= a <= I64_MAX):
                    raise Unsupported("constant outside i64 meets a BV64 value")
                a = z3.BitVecVal(a & MASK64, 64)
            if is_c(b):
                if not (I64_MIN <= b <= I64_MAX):
                    raise Unsupported("constant outside i64 meets a BV64 value")
                b = z3.BitVecVal(b & MASK64, 64)
            if not (is_bv(a) and is_bv(b)):
                raise Unsupported("Int-sorted value meets a BV64 value")
            return a, b, "bv"
        if is_c(a):
            a = z3.IntVal(a)
        if is_c(b):
            b = z3.IntVal(b)
        return a, b, "int"

    def int_eq(self, a, b):
        a, b, m = self._coerce(a, b)
        if m == "c":
            return a == b
        r = z3.simplify(a == b)
        if z3.is_true(r):
            return True
        if z3.is_false(r):
            return False
        return a == b

    def bin_eq(self, a, b):
        if isinstance(a, Atom) or isinstance(b, Atom):
            if isinstance(a, Atom) and isinstance(b, Atom):
                return a.name == b.name
            raise Unsupported("comparison of an opaque key atom with concrete bytes")
        return a == b

    def lt(self, a, b):
        a, b, m = self._coerce(a, b)
        if m == "c":
            return a < b
        return a < b  # z3: signed for BV via __lt__

    # -- dispatch --------------------------------------------------------------------------
    def call(self, name, arg, machine):
        self.used.add(name)
        f = getattr(self, "b_" + name, None)
        if f is None:
            return [Alt(unsupported="builtin %s has no model" % name)]
        return f(arg, machine)

    @staticmethod
    def _two_ints(arg):
        if not isinstance(arg, VTuple):
            raise VMError("TypeMismatch", "builtin expects tuple with two integers")
        if len(arg.f) != 2:
            raise VMError("InvalidArgument", "Expected tuple with exactly 2 elements")
        for x in arg.f:
            if not isinstance(x, VInt):
                raise VMError("TypeMismatch", "builtin expects integer")
        return arg.f[0].v, arg.f[1].v

    @staticmethod
    def _one_int(arg):
        if not isinstance(arg, VInt):
            raise VMError("TypeMismatch", "builtin expects integer")
        return arg.v

    # Arithmetic ------------------------------------------------------------------------------
    def _arith(self, arg, op):
        a, b = self._two_ints(arg)
        a, b, m = self._coerce(a, b)
        if m == "c":
            return [Alt(value=VInt({"add": a + b, "sub": a - b, "mul": a * b}[op]))]
        if m == "int":
            r = {"add": a + b, "sub": a - b, "mul": a * b}[op]
            return [Alt(value=VInt(z3.simplify(r)))]
        # BV64: exact only without signed overflow
        if op == "add":
            r = a + b
            ok = z3.And(z3.BVAddNoOverflow(a, b, True), z3.BVAddNoUnderflow(a, b))
        elif op == "sub":
            r = a - b
            ok = z3.And(z3.BVSubNoOverflow(a, b), z3.BVSubNoUnderflow(a, b, True))
        else:
            r = a * b
            ok = z3.And(z3.BVMulNoOverflow(a, b, True), z3.BVMulNoUnderflow(a, b))
        ok = z3.simplify(ok)
        side = [] if z3.is_true(ok) else [(z3.Not(ok), "64-bit overflow in BV-mode integer_%s" % op)]
        return [Alt(value=VInt(z3.simplify(r)), side=side)]

    def b_integer_add(self, arg, m):
        return self._arith(arg, "add")

    def b_integer_subtract(self, arg, m):
        return self._arith(arg, "sub")

    def b_integer_multiply(self, arg, m):
        return self._arith(arg, "mul")

    def b_integer_abs(self, arg, m):
        a = self._one_int(arg)
        if is_c(a):
            return [Alt(value=VInt(abs(a)))]
        if is_bv(a):
            mn = z3.BitVecVal(1 << 63, 64)
            return [Alt(cond=a != mn, value=VInt(z3.If(a < 0, -a, a))),
                    Alt(cond=a == mn, unsupported="abs(i64::MIN) in BV mode")]
        return [Alt(value=VInt(z3.If(a < 0, -a, a)))]

    def b_integer_compare(self, arg, m):
        a, b = self._two_ints(arg)
        a, b, mode = self._coerce(a, b)
        if mode == "c":
            return [Alt(value=VInt(-1 if a < b else (1 if a > b else 0)))]
        if mode == "bv":
            r = z3.If(a < b, z3.BitVecVal(MASK64, 64), z3.If(a > b, z3.BitVecVal(1, 64), z3.BitVecVal(0, 64)))
        else:
            r = z3.If(a < b, z3.IntVal(-1), z3.If(a > b, z3.IntVal(1), z3.IntVal(0)))
        return [Alt(value=VInt(r))]

    def _divmod(self, arg, which):
        a, b = self._two_ints(arg)
        msg = "Division by zero" if which == "div" else "Modulo by zero"
        a, b, mode = self._coerce(a, b)
        if mode == "c":
            if b == 0:
                raise VMError("InvalidArgument", msg)
            return [Alt(value=VInt(trunc_div(a, b) if which == "div" else trunc_mod(a, b)))]
        if mode == "bv":
            # i64 truncating division; i64::MIN / -1 overflows 64 bits (exact in ℤ) -> outside model
            bad = z3.And(a == z3.BitVecVal(1 << 63, 64), b == z3.BitVecVal(MASK64, 64))
            r = (a / b) if which == "div" else z3.SRem(a, b)
            return [Alt(cond=b == 0, error=("InvalidArgument", msg)),
                    Alt(cond=z3.And(b != 0, z3.Not(bad)), value=VInt(r)),
                    Alt(cond=z3.And(b != 0, bad), unsupported="i64::MIN / -1 in BV mode")]
        # Int mode.  A divisor that is a gcd of the dividend has an exact cofactor quotient:
        # x / gcd(x, y) = x1 where x = g*x1 (lemma `gcd_quotient`, discharged separately).
        if which == "div":
            for (g, x, y, x1, y1) in self.gcd_terms:
                if b.eq(g):
                    if a.eq(x):
                        return [Alt(cond=b == 0, error=("InvalidArgument", msg)),
                                Alt(cond=b != 0, value=VInt(x1))]
                    if a.eq(y):
                        return [Alt(cond=b == 0, error=("InvalidArgument", msg)),
                                Alt(cond=b != 0, value=VInt(y1))]
        key = ("divmod", a.sexpr(), b.sexpr())
        if key in self.memo:
            q, r = self.memo[key]
        else:
            q = self._fresh("q")
            r = self._fresh("r")
            self.memo[key] = (q, r)
        absb = z3.If(b < 0, -b, b)
        facts = [a == b * q + r,
                 z3.If(r < 0, -r, r) < absb,
                 z3.Implies(a >= 0, r >= 0),
                 z3.Implies(a <= 0, r <= 0)]
        return [Alt(cond=b == 0, error=("InvalidArgument", msg)),
                Alt(cond=b != 0, facts=facts, value=VInt(q if which == "div" else r))]

    def b_integer_divide(self, arg, m):
        return self._divmod(arg, "div")

    def b_integer_modulo(self, arg, m):
        return self._divmod(arg, "mod")

    def cop(self, x, y):
        """coprime(x, y) with the trivial cases decided syntactically."""
        if is_c(x) and is_c(y):
            return math.gcd(x, y) == 1
        xs = x if not is_c(x) else z3.IntVal(x)
        ys = y if not is_c(y) else z3.IntVal(y)
        ax = z3.If(xs < 0, -xs, xs)
        ay = z3.If(ys < 0, -ys, ys)
        if is_c(y) and abs(y) == 1:
            return True
        if is_c(x) and abs(x) == 1:
            return True
        if is_c(x) and x == 0:
            return ay == 1
        if is_c(y) and y == 0:
            return ax == 1
        return self.coprime(z3.simplify(ax), z3.simplify(ay))

    def b_integer_gcd(self, arg, m):
        a, b = self._two_ints(arg)
        a, b, mode = self._coerce(a, b)
        if mode == "c":
            return [Alt(value=VInt(math.gcd(a, b)))]
        if mode == "bv":
            raise Unsupported("gcd in BV mode")
        key = ("gcd", a.sexpr(), b.sexpr())
        if key in self.memo:
            g, x1, y1 = self.memo[key]
        else:
            g = self._fresh("g")
            x1 = self._fresh("gx")
            y1 = self._fresh("gy")
            self.memo[key] = (g, x1, y1)
        facts = [g >= 0, a == g * x1, b == g * y1,
                 (g == 0) == z3.And(a == 0, b == 0),
                 z3.Implies(g != 0, self.cop(x1, y1)),
                 # |cofactor| <= |operand| and sign facts that nla would otherwise have to find
                 z3.Implies(g > 0, z3.And((x1 > 0) == (a > 0), (x1 < 0) == (a < 0),
                                          (y1 > 0) == (b > 0), (y1 < 0) == (b < 0))),
                 z3.Implies(b != 0, g <= z3.If(b < 0, -b, b)),
                 z3.Implies(a != 0, g <= z3.If(a < 0, -a, a)),
                 ]
        self.gcd_terms.append((g, a, b, x1, y1))
        return [Alt(facts=facts, value=VInt(g))]

    def b_integer_sqrt(self, arg, m):
        a = self._one_int(arg)
        if is_c(a):
            if a < 0:
                raise VMError("InvalidArgument", "Cannot take square root of negative number")
            return [Alt(value=VInt(math.isqrt(a)))]
        if is_bv(a):
            raise Unsupported("sqrt in BV mode")
        key = ("sqrt", a.sexpr())
        if key in self.memo:
            s = self.memo[key]
        else:
            s = self._fresh("s")
            self.memo[key] = s
        facts = [s >= 0, s * s <= a, a < (s + 1) * (s + 1)]
        return [Alt(cond=a < 0, error=("InvalidArgument", "Cannot take square root of negative number")),
                Alt(cond=a >= 0, facts=facts, value=VInt(s))]

    # 64-bit bitwise ---------------------------------------------------------------------------
    def _narrow(self, x):
        """bigint_to_i64: returns (bv_or_int_value, fits_condition)."""
        if is_c(x):
            if I64_MIN <= x <= I64_MAX:
                return x, True
            return None, False
        if is_bv(x):
            return x, True
        # Int-sorted symbolic operand of a bitwise builtin: convert, with the range as condition
        fits = z3.And(x >= I64_MIN, x <= I64_MAX)
        return z3.Int2BV(x, 64), fits

    def _bit2(self, arg, f_c, f_bv):
        a, b = self._two_ints(arg)
        na, fa = self._narrow(a)
        nb, fb = self._narrow(b)
        fits = conj([fa, fb])
        if fits is False:
            raise VMError("InvalidArgument", "Integer does not fit in a 64-bit value")
        if is_c(na) and is_c(nb):
            return [Alt(value=VInt(f_c(na, nb)))]
        na, nb, _ = self._coerce(na, nb)
        alts = [Alt(cond=fits, value=VInt(z3.simplify(f_bv(na, nb))))]
        if fits is not True:
            alts.append(Alt(cond=neg(fits), error=("InvalidArgument", "does not fit in a 64-bit value")))
        return alts

    def b_integer_and(self, arg, m):
        return self._bit2(arg, lambda a, b: to_signed64((a & MASK64) & (b & MASK64)), lambda a, b: a & b)

    def b_integer_or(self, arg, m):
        return self._bit2(arg, lambda a, b: to_signed64((a & MASK64) | (b & MASK64)), lambda a, b: a | b)

    def b_integer_xor(self, arg, m):
        return self._bit2(arg, lambda a, b: to_signed64((a & MASK64) ^ (b & MASK64)), lambda a, b: a ^ b)

    def b_integer_not(self, arg, m):
        a = self._one_int(arg)
        na, fa = self._narrow(a)
        if fa is False:
            raise VMError("InvalidArgument", "Integer does not fit in a 64-bit value")
        if is_c(na):
            return [Alt(value=VInt(to_signed64(~na)))]
        alts = [Alt(cond=fa, value=VInt(~na))]
        if fa is not True:
            alts.append(Alt(cond=neg(fa), error=("InvalidArgument", "does not fit in a 64-bit value")))
        return alts

    @staticmethod
    def shift_c(value, amount):
        if amount == 0:
            return value
        ab = abs(amount)
        if ab >= 64:
            if amount > 0:
                return 0
            return 0 if value >= 0 else -1
        if amount > 0:
            return to_signed64((value & MASK64) << ab)
        return value >> ab

    @staticmethod
    def shift_bv(value, amount):
        zero = z3.BitVecVal(0, 64)
        if z3.is_bv_value(amount):
            a = amount.as_signed_long()
            if a == 0:
                return value
            if abs(a) >= 64:
                return zero if a > 0 else z3.If(value >= 0, zero, z3.BitVecVal(MASK64, 64))
            return value << a if a > 0 else value >> (-a)
        if ubits(amount) <= 6:
            # 0 <= amount < 64: Rust takes the plain left shift (amount == 0 returns value, same)
            return value << amount
        ab = z3.If(amount < 0, -amount, amount)   # unsigned_abs (i64::MIN -> 2^63 as unsigned)
        big = z3.UGE(ab, z3.BitVecVal(64, 64))
        return z3.If(amount == 0, value,
                     z3.If(big,
                           z3.If(amount > 0, zero, z3.If(value >= 0, zero, z3.BitVecVal(MASK64, 64))),
                           z3.If(amount > 0, value << ab, value >> ab)))

    def b_integer_shift(self, arg, m):
        return self._bit2(arg, self.shift_c, self.shift_bv)

    def b_integer_popcount(self, arg, m):
        a = self._one_int(arg)
        na, fa = self._narrow(a)
        if fa is False:
            raise VMError("InvalidArgument", "Integer does not fit in a 64-bit value")
        if is_c(na):
            return [Alt(value=VInt(bin(na & MASK64).count("1")))]
        nb = max(1, min(64, ubits(na)))
        bits = [z3.ZeroExt(6, z3.Extract(i, i, na)) for i in range(nb)]
        s = bits[0]
        for x in bits[1:]:
            s = s + x
        s = z3.ZeroExt(57, s)
        alts = [Alt(cond=fa, value=VInt(z3.simplify(s)))]
        if fa is not True:
            alts.append(Alt(cond=neg(fa), error=("InvalidArgument", "does not fit in a 64-bit value")))
        return alts

    # binaries ---------------------------------------------------------------------------------
    def hash_of_atom(self, atom):
        h = self.atom_hash.get(atom.name)
        if h is None:
            h = z3.BitVec("hash_" + atom.name, 32)
            self.atom_hash[atom.name] = h
        return h

    def b_binary_hash32(self, arg, m):
        if not isinstance(arg, VBin):
            raise VMError("TypeMismatch", "binary_hash32 expects binary")
        if isinstance(arg.b, Atom):
            return [Alt(value=VInt(z3.ZeroExt(32, self.hash_of_atom(arg.b))))]
        return [Alt(value=VInt(fnv1a32(arg.b)))]

    def b_binary_hash64(self, arg, m):
        if not isinstance(arg, VBin):
            raise VMError("TypeMismatch", "binary_hash64 expects binary")
        if isinstance(arg.b, Atom):
            raise Unsupported("hash64 of atom")
        return [Alt(value=VInt(fnv1a64(arg.b)))]

    def b_binary_length(self, arg, m):
        if not isinstance(arg, VBin):
            raise VMError("TypeMismatch", "binary_length expects binary")
        if isinstance(arg.b, Atom):
            raise Unsupported("length of atom")
        return [Alt(value=VInt(len(arg.b)))]

    def b_binary_concat(self, arg, m):
        if not (isinstance(arg, VTuple) and len(arg.f) == 2 and all(isinstance(x, VBin) for x in arg.f)):
            raise VMError("TypeMismatch", "binary_concat expects [bin, bin]")
        a, b = arg.f[0].b, arg.f[1].b
        if isinstance(a, Atom) or isinstance(b, Atom):
            raise Unsupported("concat of atom")
        if len(a) + len(b) > 16 * 1024 * 1024:
            raise VMError("InvalidArgument", "Binary size exceeds maximum")
        return [Alt(value=VBin(a + b))]
