"""Client for the qvdump helper (the real compiler / executor / tables, driven over JSON lines)."""
import json
import os
import subprocess
import sys
import time

VERIF = os.path.dirname(os.path.dirname(os.path.abspath(__file__)))
REPO = os.environ.get("VERIF_REPO", "/repo")
BUILD_DIR = os.path.join(VERIF, ".build", "qvdump")
CRATE = os.path.join(VERIF, "tools", "qvdump")
TOOLCHAIN = "1.96.0"


def build(profile="dev", quiet=True):
    """(Re)build qvdump against /repo's current working tree.  cargo's fingerprinting of the
    path dependencies makes this a no-op when nothing changed."""
    env = dict(os.environ)
    env["CARGO_NET_OFFLINE"] = "true"
    env["RUSTUP_TOOLCHAIN"] = TOOLCHAIN
    env["CARGO_TARGET_DIR"] = BUILD_DIR
    # enables the cfg-guarded verification hooks of /repo (MANIFEST.hooks)
    env["RUSTFLAGS"] = "--cfg quiver_verif"
    # keep the lock file in step with the repository's
    lock_src = os.path.join(REPO, "Cargo.lock")
    cmd = ["cargo", "build", "--offline"]
    if profile == "release":
        cmd.append("--release")
    t0 = time.time()
    r = subprocess.run(cmd, cwd=CRATE, env=env, stdout=subprocess.PIPE, stderr=subprocess.STDOUT, text=True)
    if r.returncode != 0:
        sys.stderr.write(r.stdout[-6000:])
        raise RuntimeError("qvdump build failed (does /repo still compile?)")
    path = os.path.join(BUILD_DIR, "release" if profile == "release" else "debug", "qvdump")
    return path, time.time() - t0


class QV:
    def __init__(self, profile="dev"):
        self.path, self.build_s = build(profile)
        self.proc = subprocess.Popen([self.path, "serve"], stdin=subprocess.PIPE, stdout=subprocess.PIPE,
                                     stderr=subprocess.DEVNULL, text=True, bufsize=1)
        self.calls = 0

    def req(self, **kw):
        self.calls += 1
        self.proc.stdin.write(json.dumps(kw) + "\n")
        self.proc.stdin.flush()
        line = self.proc.stdout.readline()
        if not line:
            raise RuntimeError("qvdump died on request %r" % (kw.get("op"),))
        return json.loads(line)

    def compile(self, source, dump=True, modules=None):
        return self.req(op="compile", source=source, std_dir=os.path.join(REPO, "std"), dump=dump,
                        modules=modules or {})

    def close(self):
        try:
            self.proc.stdin.close()
            self.proc.wait(timeout=5)
        except Exception:
            self.proc.kill()

    def __enter__(self):
        return self

    def __exit__(self, *a):
        self.close()
