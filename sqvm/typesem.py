"""Set-theoretic semantics of Quiver types as SMT formulas over a symbolic bounded value tree
(C08/C09).

A *value tree* is a tree of tags: INT, BIN, or a tuple *signature* (name, field labels) with one
child per field.  It is represented by one z3 Int variable per tree position (path), created
lazily, to depth D.  `mem(tid, path)` is the formula "the subtree at `path` is a value of type
`tid`", built from the program's real type table (as dumped from the real compiler) by structural
recursion:

  int / bin          the tag is INT / BIN
  tuple k            the tag is k's signature and every child is a member of k's declared field type
  union              some variant (the union is pushed on the stack of enclosing unions)
  cycle d            the union d levels up the stack (the convention of
                     quiver_core::types::check_type_relation and of sqvm/shapes.py)
  partial            closed world: the tag is the signature of some tuple of the program whose name
                     matches and which has the named fields, and those children are members of the
                     partial's field types (other children unconstrained)
  fn/process/resource/ref/var     not modelled: Unsupported (the query is skipped and counted)

This is deliberately *not* a transcription of check_type_relation: no assumptions set, no
coinduction, no modes — membership of one concrete tree, by unfolding.  Values deeper than D are
outside the universe (a tuple type with fields has no member below the depth limit).
"""
import z3

INT_TAG = 0
BIN_TAG = 1


class Unsupported(Exception):
    pass


class TypeSem:
    def __init__(self, types, tuples, depth=3, max_arity=8, prefix="v"):
        """types: list of type JSON (as dumped by qvdump); tuples: list of (name, [(label, type_id)])"""
        self.types = types
        self.tuples = tuples
        self.depth = depth
        self.max_arity = max_arity
        self.prefix = prefix
        self.sigs = {}          # (name, labels) -> tag number
        self.sig_list = [None, None]
        for name, fields in tuples:
            self.sig_of(name, tuple(l for l, _ in fields))
        self.vars = {}
        self.memo = {}
        self.visiting = set()
        self.var_any = False     # read a type variable as "any value" (tags of generic tuples)

    # -- signatures ------------------------------------------------------------------------
    def sig_of(self, name, labels):
        k = (name, tuple(labels))
        if k not in self.sigs:
            self.sigs[k] = len(self.sig_list)
            self.sig_list.append(k)
        return self.sigs[k]

    def tuple_sig(self, tup):
        name, fields = self.tuples[tup]
        return self.sig_of(name, tuple(l for l, _ in fields))

    def tag(self, path):
        if path not in self.vars:
            self.vars[path] = z3.Int("%s_%s" % (self.prefix, "_".join(map(str, path)) or "root"))
        return self.vars[path]

    # -- membership -------------------------------------------------------------------------
    def mem(self, tid, path=(), stack=(), approx="under"):
        """approx = "under": a tuple with fields has no member below the depth limit (every model
        is a real member); "over": anything well-formed is accepted at the depth limit (every real
        member, of any depth, has a model of its truncation)."""
        self.approx = approx
        return self._memo_mem(tid, path, stack)

    def _memo_mem(self, tid, path, stack):
        key = (tid, path, stack, self.approx, self.var_any)
        if key in self.memo:
            return self.memo[key]
        if key in self.visiting:
            # union -> cycle -> same union at the same tree position: an unguarded recursion
            # (`X = 'int | X`), whose meaning depends on reading it inductively (just 'int) or
            # coinductively (everything, which is what check_type_relation does).  Not modelled.
            raise Unsupported("unguarded cycle")
        self.visiting.add(key)
        try:
            r = self._mem(tid, path, stack)
        finally:
            self.visiting.discard(key)
        self.memo[key] = r
        return r

    def _mem(self, tid, path, stack):
        if tid >= len(self.types):
            raise Unsupported("type id out of range")
        t = self.types[tid]
        tag = self.tag(path)
        if t == "int":
            return tag == INT_TAG
        if t == "bin":
            return tag == BIN_TAG
        if t == "ref":
            raise Unsupported("ref")
        if isinstance(t, dict):
            if "tuple" in t:
                return self._mem_tuple(t["tuple"], path, stack)
            if "union" in t:
                st2 = stack + (tid,)
                return z3.Or([self._memo_mem(v, path, st2) for v in t["union"]]) if t["union"] else z3.BoolVal(False)
            if "cycle" in t:
                d = t["cycle"]
                if d > len(stack) or d <= 0:
                    raise Unsupported("cycle beyond the enclosing unions (open type)")
                target = stack[len(stack) - d]
                return self._memo_mem(target, path, stack[:len(stack) - d])
            if "partial" in t:
                return self._mem_partial(t["partial"], path, stack)
            if "var" in t and self.var_any:
                return self.wf(path)
            for k in ("fn", "process", "resource", "var"):
                if k in t:
                    raise Unsupported(k)
        raise Unsupported("unknown type %r" % (t,))

    def _mem_tuple(self, tup, path, stack):
        name, fields = self.tuples[tup]
        tag = self.tag(path)
        sig = self.tuple_sig(tup)
        if not fields:
            return tag == sig
        if len(path) >= self.depth:
            return z3.BoolVal(False) if self.approx == "under" else tag == sig
        if len(fields) > self.max_arity:
            raise Unsupported("arity %d" % len(fields))
        return z3.And([tag == sig] + [self._memo_mem(ft, path + (i,), stack) for i, (_l, ft) in enumerate(fields)])

    def _mem_partial(self, part, path, stack):
        pname = part.get("name")
        pfields = part.get("fields") or []
        tag = self.tag(path)
        alts = {}
        for tup, (name, fields) in enumerate(self.tuples):
            if pname is not None and name != pname:
                continue
            labels = [l for l, _ in fields]
            if not all(fn in labels for fn, _ in pfields):
                continue
            sig = self.tuple_sig(tup)
            if sig in alts:
                continue
            if fields and len(path) >= self.depth:
                if self.approx == "over":
                    alts[sig] = tag == sig
                continue
            if len(fields) > self.max_arity:
                raise Unsupported("arity %d" % len(fields))
            conj = [tag == sig]
            for fn, ft in pfields:
                conj.append(self._memo_mem(ft, path + (labels.index(fn),), stack))
            # the other children are arbitrary (well-formed) values
            for i, l in enumerate(labels):
                if l not in [fn for fn, _ in pfields]:
                    conj.append(self.wf(path + (i,)))
            alts[sig] = z3.And(conj)
        return z3.Or(list(alts.values())) if alts else z3.BoolVal(False)

    # -- well-formed trees (the value universe) ------------------------------------------------
    def wf(self, path):
        key = ("wf", path, self.approx)
        if key in self.memo:
            return self.memo[key]
        tag = self.tag(path)
        alts = [tag == INT_TAG, tag == BIN_TAG]
        for sig, k in enumerate(self.sig_list):
            if k is None:
                continue
            labels = k[1]
            if not labels:
                alts.append(tag == sig)
            elif len(path) < self.depth and len(labels) <= self.max_arity:
                alts.append(z3.And([tag == sig] + [self.wf(path + (i,)) for i in range(len(labels))]))
            elif self.approx == "over":
                alts.append(tag == sig)
        r = z3.Or(alts)
        self.memo[key] = r
        return r

    # -- reading a model back ---------------------------------------------------------------------
    def tree(self, model, path=()):
        v = model.eval(self.tag(path), model_completion=True).as_long()
        if v == INT_TAG:
            return "int"
        if v == BIN_TAG:
            return "bin"
        if 0 <= v < len(self.sig_list) and self.sig_list[v] is not None:
            name, labels = self.sig_list[v]
            if len(path) >= self.depth and labels:
                return "%s[...]" % (name or "")
            inner = ", ".join(("%s: " % l if l else "") + self.tree(model, path + (i,)) for i, l in enumerate(labels))
            return "%s[%s]" % (name or "", inner) if labels or not name else name
        return "?%d" % v


def closed_supported(sem, tid):
    """True if the membership formula of tid can be built (closed, first-order)."""
    try:
        sem.mem(tid, approx="under")
        sem.mem(tid, approx="over")
        return True
    except Unsupported:
        return False
    except RecursionError:
        return False
