"""Generated branch shapes with a statically dead condition that binds (C01): the dead branch's
code still runs up to the point where it is known to fail, so whatever it stored has to be dropped
before the next branch binds its own variables."""
import itertools

TYPES = [("int", "'int"), ("ab", "(A[a: 'int] | B[b: 'int])"), ("pair", "['int, 'int]")]

# conditions that bind first and then fail for a reason known at compile time
DEAD = [("bin_test", "=x, 0x00 ='int"), ("typed", "=x, x ='bin"), ("two", "=x, =y, 0x00 ='int"),
        ("nested", "=x, { 0x00 ='int }")]

# live branches that bind values of different types and use one of them as an int
LIVE = [("second", "[\"s\", 8] =[u, v] => [v, 1] __integer_add__"),
        ("first", "[8, \"s\"] =[u, v] => [u, 1] __integer_add__"),
        ("with_param", "=p, [\"s\", 8] =[u, v] => [v, 1] __integer_add__"),
        ("three", "[\"s\", 0x00, 8] =[u, v, w] => [w, 1] __integer_add__"),
        ("value", "[\"s\", 8] =[u, v] => v")]


def programs():
    out = []
    for (tn, t), (dn, d), (ln, l) in itertools.product(TYPES, DEAD, LIVE):
        out.append(("gen_dead/%s/%s/%s" % (tn, dn, ln), "f = #%s { | %s => 1 | %s | 0 }" % (t, d, l)))
        out.append(("gen_dead/%s/%s/%s/inner" % (tn, dn, ln), "f = #%s { z = 3, { | %s => 1 | %s | 0 } }" % (t, d, l)))
    return out
