"""Generated tail-call program shapes (C16/C07): a combinatorial family of function kinds ×
tail-call argument forms × targets × syntactic positions.  Only the programs the real compiler
accepts are used; they need not terminate (the check is static, over all paths)."""
import itertools

KINDS = {
    # name: (header, close, param-is-int)
    "int": ("f = #'int {\n", "\n}", True),
    "pair": ("f = #['int, 'int] {\n", "\n}", False),
    "nilary": ("f = #{\n", "\n}", False),
    "intnil": ("f = #('int | []) {\n", "\n}", False),
    "proc": ("p = @{\n", "\n}", False),
    "procint": ("p = @'int {\n", "\n}", True),
}

ARGS = ["", "[] ", "1 ", "$ ", "[$, 1] __integer_subtract__ ", "[1, 2] ", "{ 1 } ", "Done ", "7 [~, 1] __integer_add__ "]

TARGETS = ["^", "^g", "&h ^~", "^h", "^g2"]

# the targets use their parameter, so that an argument outside the declared parameter type shows
# (C01): g adds to it, g2 adds its two fields, h returns it (typed nil)
PRELUDE = "g = #'int { [~, 1] __integer_add__ },\nh = #{ $ },\ng2 = #['int, 'int] { __integer_add__ },\n"

POSITIONS = [
    "{T}",
    "| =0 => 0\n| {T}",
    "| =0 => 0\n| {{ {T} }}",
    "| =0 => 0\n| =n => {{ y = n, {T} }}",
    "| =0 => 0\n| =n => {{ | n =1 => 1 | {T} }}",
    "y = 5, {T}",
    "y = 5, {{ | y =5 => {T} | 0 }}",
    "!'int {{\n  | =0 => Done\n  | {T}\n}}",
    "!'int {{\n  | =0 => Done\n  | =m => {{ m, {T} }}\n}}",
    "!#Str['bin] {{\n  | =\"\" => []\n  | =s => {{ s, {T} }}\n}}",
    "| =[] => 0\n| {T}",
    "{{ {{ {T} }} }}",
    # `^` that is NOT in tail position (inside a tuple literal / followed by another term)
    "| =0 => 0\n| =n => [1, {T}]",
    "| =0 => 0\n| =n => {T} [~, 1] __integer_add__",
]


def programs():
    out = []
    for (kname, (head, close, _)), arg, tgt, pos in itertools.product(KINDS.items(), ARGS, TARGETS, POSITIONS):
        tail = arg + tgt
        body = pos.replace("{T}", tail).replace("{{", "{").replace("}}", "}")
        body = "\n".join("  " + ln for ln in body.split("\n"))
        src = PRELUDE + head + body + close
        name = "gen_tail/%s/%s/%s/%d" % (kname, (arg.strip() or "bare"), tgt, POSITIONS.index(pos))
        out.append((name, src))
    return out
