"""Generated sequence shapes (C01): a function body that is a `,`-separated sequence of 2-4 steps
drawn from failable matches, typed binders, constant bindings, optional-returning calls and
always-succeeding steps, followed by a last step that uses what was bound.  A sequence is nil as
soon as one step is nil; the inferred result type has to say so wherever the nil-able step sits."""
import itertools

DEFS = "mko = #'int { =0 => 5 },\n"        # 'int -> 'int | []

TYPES = [("ab", "(A[a: 'int] | B[b: 'int])"), ("optint", "('int | [])"), ("int", "'int")]

# (name, source, variables bound, needs)   — `needs` = subject types the step makes sense for
STEPS = [
    ("matchA", "=A[a: n]", {"n"}, {"ab"}),
    ("typed", "=('int)n", {"n"}, {"optint", "int"}),
    ("lit0", "=0", set(), {"optint", "int"}),
    ("const", "k = 10", {"k"}, None),
    ("const2", "j = 3", {"j"}, None),
    ("optcall", "7 mko =('int)m", {"m"}, None),
    ("optcall0", "0 mko =('int)m", {"m"}, None),
    ("arith", "[1, 2] __integer_add__", set(), None),
    ("okstep", "Ok", set(), None),
]

LASTS = [("n_plus_k", "[n, k] __integer_add__", {"n", "k"}), ("k", "k", {"k"}), ("n", "n", {"n"}),
         ("m_plus_1", "[m, 1] __integer_add__", {"m"}), ("seven", "7", set()), ("pair", "[k, j]", {"k", "j"}),
         ("tagged", "R[n]", {"n"})]


def programs():
    out = []
    for (tn, t) in TYPES:
        pool = [s for s in STEPS if s[3] is None or tn in s[3]]
        for length in (1, 2, 3):
            for combo in itertools.product(pool, repeat=length):
                names = [c[0] for c in combo]
                if len(set(names)) != len(names):
                    continue
                if not any(c[0] in ("matchA", "typed", "lit0", "optcall", "optcall0") for c in combo):
                    continue          # no nil-able step: nothing to get wrong
                bound = set()
                for c in combo:
                    bound |= c[2]
                for (ln, lsrc, need) in LASTS:
                    if not need <= bound:
                        continue
                    body = ", ".join([c[1] for c in combo] + [lsrc])
                    src = DEFS + "f = #%s { %s }" % (t, body)
                    out.append(("gen_seq/%s/%s/%s" % (tn, "+".join(names), ln), src))
    return out
