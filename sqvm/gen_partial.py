"""Generated functions over partial-typed parameters (C01): the parameter admits every tuple that
has the named fields, wherever they sit; a world function declares tuples with the field first,
last, alone and absent."""
import itertools

WORLD = "w = #(P[x: 'int] | Q[y: 'bin, x: 'int] | R[x: 'int, y: 'int] | S[y: 'int] | T[z: 'bin, y: 'int, x: 'int]) { 0 },\n"

PARAMS = [("x", "(x: 'int)"), ("Px", "P(x: 'int)"), ("xy", "(x: 'int, y: 'int)"), ("y", "(y: 'int)"), ("Qx", "Q(x: 'int)"),
          ("x_or_int", "((x: 'int) | 'int)")]

BODIES = [("get_x", ".x"), ("get_x_add", ".x [~, 1] __integer_add__"), ("get_y_add", ".y [~, 1] __integer_add__"),
          ("pat_x", "=(x: n) => n"), ("pat_x_add", "=(x: n) => [n, 1] __integer_add__"), ("pat_y_add", "=(y: n) => [n, 1] __integer_add__"),
          ("pat_xy_add", "=(x: n, y: m) => [n, m] __integer_add__"), ("star_x", "=* => [x, 1] __integer_add__"),
          ("dispatch", "| =P[x: n] => n | =(x: m) => [m, 1] __integer_add__"),
          ("typed", "| ='int => 0 | =(x: m) => [m, 1] __integer_add__"),
          ("rebuild", "=(x: n) => P[x: n]"), ("pass", "$ g"), ("pass_add", "$ g [~, 1] __integer_add__")]


def programs():
    out = []
    for (pn, p), (bn, b) in itertools.product(PARAMS, BODIES):
        src = WORLD + "g = #(x: 'int) { .x },\n" + "f = #%s { %s }" % (p, b)
        out.append(("gen_partial/%s/%s" % (pn, bn), src))
    return out
