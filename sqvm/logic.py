"""Boolean/arith helpers that work on Python values and z3 terms alike, so one oracle definition
serves both the solver obligation (symbolic) and the native replay judgement (concrete)."""
import z3


def is_sym(x):
    return isinstance(x, z3.ExprRef)


def AND(*xs):
    xs = [x for x in xs if x is not True]
    if any(x is False for x in xs):
        return False
    if not xs:
        return True
    if all(isinstance(x, bool) for x in xs):
        return all(xs)
    return z3.And(*[x if is_sym(x) else z3.BoolVal(x) for x in xs])


def OR(*xs):
    xs = [x for x in xs if x is not False]
    if any(x is True for x in xs):
        return True
    if not xs:
        return False
    if all(isinstance(x, bool) for x in xs):
        return any(xs)
    return z3.Or(*[x if is_sym(x) else z3.BoolVal(x) for x in xs])


def NOT(x):
    if isinstance(x, bool):
        return not x
    return z3.Not(x)


def IMPL(a, b):
    return OR(NOT(a), b)


def IFF(a, b):
    if isinstance(a, bool) and isinstance(b, bool):
        return a == b
    return AND(IMPL(a, b), IMPL(b, a))


def ITE(c, a, b):
    if isinstance(c, bool):
        return a if c else b
    if not is_sym(a) and not is_sym(b):
        a = z3.IntVal(a)
    return z3.If(c, a, b)


def EQ(a, b):
    r = (a == b)
    return r


def ABS(a):
    if is_sym(a):
        return z3.If(a < 0, -a, a)
    return abs(a)


def SIGN(a):
    if is_sym(a):
        return z3.If(a < 0, z3.IntVal(-1), z3.If(a > 0, z3.IntVal(1), z3.IntVal(0)))
    return -1 if a < 0 else (1 if a > 0 else 0)
