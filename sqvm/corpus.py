"""Program corpus named by the properties: the standard library, every source string of the test
suite, the spec's examples.  Extracted from /repo's current tree on every run."""
import glob
import os
import re

REPO = os.environ.get("VERIF_REPO", "/repo")
SRC_REPO = "/repo"  # tests/spec always come from the real repository


def _unescape(s):
    out = []
    i = 0
    while i < len(s):
        c = s[i]
        if c == "\\" and i + 1 < len(s):
            n = s[i + 1]
            if n == "n":
                out.append("\n")
            elif n == "t":
                out.append("\t")
            elif n == "r":
                out.append("\r")
            elif n == "0":
                out.append("\0")
            elif n == "\\":
                out.append("\\")
            elif n == '"':
                out.append('"')
            elif n == "'":
                out.append("'")
            elif n == "\n":
                # line continuation: skip newline and following whitespace
                i += 2
                while i < len(s) and s[i] in " \t\n\r":
                    i += 1
                continue
            elif n == "x" and i + 3 < len(s):
                out.append(chr(int(s[i + 2:i + 4], 16)))
                i += 4
                continue
            elif n == "u":
                m = re.match(r"\\u\{([0-9a-fA-F]+)\}", s[i:])
                if m:
                    out.append(chr(int(m.group(1), 16)))
                    i += len(m.group(0))
                    continue
                out.append(n)
            else:
                out.append("\\" + n)
            i += 2
        else:
            out.append(c)
            i += 1
    return "".join(out)


_CALL = re.compile(r"\.(?:evaluate|then_evaluate)\(\s*")


def rust_strings_after_evaluate(text):
    res = []
    for m in _CALL.finditer(text):
        i = m.end()
        if text.startswith('r#"', i):
            j = text.find('"#', i + 3)
            if j > 0:
                res.append(text[i + 3:j])
        elif text.startswith('r"', i):
            j = text.find('"', i + 2)
            if j > 0:
                res.append(text[i + 2:j])
        elif text.startswith('"', i):
            j = i + 1
            while j < len(text):
                if text[j] == "\\":
                    j += 2
                    continue
                if text[j] == '"':
                    break
                j += 1
            res.append(_unescape(text[i + 1:j]))
    return res


def test_sources():
    out = []
    for path in sorted(glob.glob(os.path.join(SRC_REPO, "quiver-tests", "tests", "*.rs"))):
        base = os.path.basename(path)
        if base.startswith("zz") or base == "common.rs":
            continue
        text = open(path, encoding="utf-8").read()
        for k, s in enumerate(rust_strings_after_evaluate(text)):
            out.append(("tests/%s#%d" % (base, k), s))
    return out


def spec_sources():
    out = []
    path = os.path.join(SRC_REPO, "docs", "spec.md")
    try:
        text = open(path, encoding="utf-8").read()
    except OSError:
        return out
    for k, m in enumerate(re.finditer(r"```quiver\n(.*?)```", text, re.S)):
        out.append(("spec.md#%d" % k, m.group(1)))
    return out


def std_sources():
    out = []
    std = os.path.join(REPO, "std")
    for path in sorted(glob.glob(os.path.join(std, "**", "*.qv"), recursive=True)):
        rel = os.path.relpath(path, std)[:-3]
        out.append(("std/%s" % rel, "%" + rel))
    return out


def example_sources():
    out = []
    for path in sorted(glob.glob(os.path.join(SRC_REPO, "examples", "*.qv"))):
        out.append(("examples/" + os.path.basename(path), open(path, encoding="utf-8").read()))
    return out


def all_sources():
    seen = set()
    res = []
    for name, src in std_sources() + example_sources() + test_sources() + spec_sources():
        if src in seen:
            continue
        seen.add(src)
        res.append((name, src))
    return res
