//! Stand-in for num-bigint in the C12 harness world: an integer of 128 bits.  The builtins only
//! narrow BigInts to machine words (to_i64/to_usize/to_u8), widen machine words back, and test the
//! sign; 128 bits cover "fits" and "does not fit in 64 bits" alike.  Magnitudes >= 2^127 are
//! outside the harness bound (stated in the evidence).
use core::fmt;
use core::ops::{Add, Div, Mul, Neg, Rem, Sub};

#[derive(Clone, Copy, Debug, PartialEq, Eq, PartialOrd, Ord)]
pub enum Sign {
    Minus,
    NoSign,
    Plus,
}

#[derive(Clone, Copy, Debug, PartialEq, Eq, PartialOrd, Ord)]
pub struct BigInt(pub i128);

impl BigInt {
    pub fn sign(&self) -> Sign {
        if self.0 < 0 {
            Sign::Minus
        } else if self.0 == 0 {
            Sign::NoSign
        } else {
            Sign::Plus
        }
    }
    pub fn sqrt(&self) -> BigInt {
        // not exercised by the harnesses (integer_sqrt is outside the C12 Kani bound)
        BigInt(0)
    }
    pub fn to_i64(&self) -> Option<i64> {
        if self.0 >= i64::MIN as i128 && self.0 <= i64::MAX as i128 { Some(self.0 as i64) } else { None }
    }
    pub fn to_u64(&self) -> Option<u64> {
        if self.0 >= 0 && self.0 <= u64::MAX as i128 { Some(self.0 as u64) } else { None }
    }
    pub fn to_usize(&self) -> Option<usize> {
        if self.0 >= 0 && self.0 <= usize::MAX as i128 { Some(self.0 as usize) } else { None }
    }
    pub fn to_u8(&self) -> Option<u8> {
        if self.0 >= 0 && self.0 <= 255 { Some(self.0 as u8) } else { None }
    }
    pub fn to_f64(&self) -> Option<f64> {
        Some(self.0 as f64)
    }
    pub fn abs(&self) -> BigInt {
        BigInt(if self.0 < 0 { -self.0 } else { self.0 })
    }
    pub fn is_negative(&self) -> bool {
        self.0 < 0
    }
    pub fn is_zero(&self) -> bool {
        self.0 == 0
    }
}

macro_rules! from_prim {
    ($($t:ty),*) => { $( impl From<$t> for BigInt { fn from(v: $t) -> Self { BigInt(v as i128) } } )* };
}
from_prim!(i8, i16, i32, i64, isize, u8, u16, u32, u64, usize);

impl fmt::Display for BigInt {
    fn fmt(&self, _f: &mut fmt::Formatter<'_>) -> fmt::Result {
        Ok(())
    }
}

impl Add for BigInt { type Output = BigInt; fn add(self, o: BigInt) -> BigInt { BigInt(self.0.wrapping_add(o.0)) } }
impl Sub for BigInt { type Output = BigInt; fn sub(self, o: BigInt) -> BigInt { BigInt(self.0.wrapping_sub(o.0)) } }
impl Mul for BigInt { type Output = BigInt; fn mul(self, o: BigInt) -> BigInt { BigInt(self.0.wrapping_mul(o.0)) } }
impl Div for BigInt { type Output = BigInt; fn div(self, o: BigInt) -> BigInt { BigInt(self.0.wrapping_div(o.0)) } }
impl Rem for BigInt { type Output = BigInt; fn rem(self, o: BigInt) -> BigInt { BigInt(self.0.wrapping_rem(o.0)) } }
impl Neg for BigInt { type Output = BigInt; fn neg(self) -> BigInt { BigInt(self.0.wrapping_neg()) } }
impl<'a> Add<&'a BigInt> for BigInt { type Output = BigInt; fn add(self, o: &BigInt) -> BigInt { self + *o } }
impl core::ops::AddAssign<BigInt> for BigInt { fn add_assign(&mut self, o: BigInt) { self.0 = self.0.wrapping_add(o.0) } }
impl core::iter::Sum for BigInt {
    fn sum<I: Iterator<Item = BigInt>>(iter: I) -> BigInt {
        let mut s = BigInt(0);
        for x in iter { s += x; }
        s
    }
}

pub struct TryFromBigIntError;
macro_rules! try_from_ref {
    ($($t:ty),*) => { $(
        impl<'a> TryFrom<&'a BigInt> for $t {
            type Error = TryFromBigIntError;
            fn try_from(v: &BigInt) -> Result<$t, TryFromBigIntError> {
                if v.0 >= <$t>::MIN as i128 && v.0 <= <$t>::MAX as i128 { Ok(v.0 as $t) } else { Err(TryFromBigIntError) }
            }
        }
        impl TryFrom<BigInt> for $t {
            type Error = TryFromBigIntError;
            fn try_from(v: BigInt) -> Result<$t, TryFromBigIntError> { <$t>::try_from(&v) }
        }
    )* };
}
try_from_ref!(i8, i16, i32, i64, isize, u8, u16, u32, u64, usize);

macro_rules! prim_ops {
    ($($t:ty),*) => { $(
        impl core::ops::AddAssign<$t> for BigInt { fn add_assign(&mut self, o: $t) { self.0 = self.0.wrapping_add(o as i128) } }
        impl Mul<$t> for BigInt { type Output = BigInt; fn mul(self, o: $t) -> BigInt { BigInt(self.0.wrapping_mul(o as i128)) } }
        impl Add<$t> for BigInt { type Output = BigInt; fn add(self, o: $t) -> BigInt { BigInt(self.0.wrapping_add(o as i128)) } }
    )* };
}
prim_ops!(i64, u64, i32, u32, usize);
