//! Kani proof harnesses for C12.  One harness per builtin; arguments are symbolic over the whole
//! 128-bit stand-in integer range (so "does not fit in 64 bits" is covered), binaries are symbolic
//! byte arrays of symbolic length up to the stated bound.  Each harness compares the real builtin
//! with a plain reference model (bit string / flat byte array) and relies on Kani's built-in
//! checks for "never panics" (overflow, out-of-bounds index, unwrap on None).
use crate::binary::BinaryData;
use crate::builtins::binary::*;
use crate::builtins::integer::*;
use crate::builtins::vector::*;
use crate::builtins::BuiltinResult;
use crate::effects::Effect;
use crate::executor::Executor;
use crate::value::{Binary, Fields, Value};
use num_bigint::BigInt;
use std::rc::Rc;

#[derive(Clone, Debug)]
pub struct NoEffect;
impl Effect for NoEffect {}

pub fn fmt_stub(_args: core::fmt::Arguments<'_>) -> String {
    String::new()
}
pub fn noop_drop(_b: &mut crate::real_binary::BinaryData) {}

type Ex = Executor<NoEffect>;

fn tuple(fields: &[Value]) -> Value {
    Value::Tuple(7, Fields { ptr: fields.as_ptr(), len: fields.len() })
}

fn int(v: i128) -> Value {
    Value::Integer(BigInt(v))
}

/// the bytes of a result binary, flattened by the real rope code
fn result_bytes(ex: &Ex, v: &Value) -> Vec<u8> {
    match v {
        Value::Binary(b) => ex.get_binary_data(b).unwrap().to_vec(),
        _ => {
            assert!(false, "expected a binary result");
            Vec::new()
        }
    }
}

/// N symbolic bytes of which the first `len` are the binary.  `len` is CONCRETE per harness
/// instance (allocation sizes stay concrete, which is what keeps CBMC within memory); the set of
/// lengths each builtin is checked at is listed next to its harness.
fn any_bytes<const N: usize>(len: usize) -> ([u8; N], usize) {
    let bytes: [u8; N] = kani::any();
    assert!(len <= N);
    (bytes, len)
}

// ---------------------------------------------------------------------------------------------
// binary_get([bin, byte_offset, bit_offset, num_bits]) -> int

fn h_binary_get(len1: usize) {
    const N: usize = 9;
    let (bytes, len) = any_bytes::<N>(len1);
    let bo: i128 = kani::any();
    let bi: i128 = kani::any();
    let nb: i128 = kani::any();
    let mut ex = Ex::new();
    let bin = ex.allocate_binary(bytes[..len].to_vec()).unwrap();
    let fields = [Value::Binary(bin), int(bo), int(bi), int(nb)];
    let arg = tuple(&fields);
    let r = builtin_binary_get::<NoEffect>(0, &arg, &mut ex);
    // documented domain
    let in_domain = bo >= 0
        && (0..=7).contains(&bi)
        && (1..=64).contains(&nb)
        && bo < (1i128 << 64)
        && bo * 8 + bi + nb <= (len as i128) * 8;
    match r {
        Ok(BuiltinResult::Value(Value::Integer(v))) => {
            assert!(in_domain, "value returned outside the documented domain");
            // reference: the 72-bit big-endian window starting at byte `bo`
            let bo_u = bo as usize;
            let mut w: u128 = 0;
            let mut i = 0;
            while i < 9 {
                let b = if bo_u + i < len { bytes[bo_u + i] } else { 0 };
                w = (w << 8) | (b as u128);
                i += 1;
            }
            let shift = 72 - (bi as u32) - (nb as u32);
            let mask: u128 = if nb == 64 { u64::MAX as u128 } else { (1u128 << (nb as u32)) - 1 };
            let expected = (w >> shift) & mask;
            assert!(v.0 == expected as i128, "binary_get returns the wrong bits");
            kani::cover!(bi > 0 && nb > 56, "window spans nine bytes");
        }
        Err(_) => assert!(!in_domain, "clean error only outside the documented domain"),
        _ => assert!(false, "unexpected result kind"),
    }
    core::mem::forget(ex);
}

// ---------------------------------------------------------------------------------------------
// helpers for the remaining harnesses

fn fits_i64(v: i128) -> bool {
    v >= i64::MIN as i128 && v <= i64::MAX as i128
}

fn be_window<const N: usize>(bytes: &[u8; N], len: usize) -> u128 {
    // big-endian integer of the N-byte array, bytes beyond len read as 0
    let mut w: u128 = 0;
    let mut i = 0;
    while i < N {
        let b = if i < len { bytes[i] } else { 0 };
        w = (w << 8) | (b as u128);
        i += 1;
    }
    w
}

fn expect_bytes<const N: usize>(ex: &Ex, v: &Value, want: &[u8; N], want_len: usize) {
    match v {
        Value::Binary(b) => {
            let d = ex.get_binary_data(b).unwrap();
            assert!(d.len() == want_len, "result length differs from the reference model");
            let k: usize = kani::any();
            kani::assume(k < want_len && k < N);
            assert!(d.byte_at(k) == Some(want[k]), "result byte differs from the reference model");
        }
        _ => assert!(false, "expected a binary result"),
    }
}

// ---------------------------------------------------------------------------------------------
// binary_set([bin, byte_offset, bit_offset, value, num_bits]) -> bin

fn h_binary_set(len1: usize) {
    h_binary_set_at(len1, None)
}

/// `fixed_bo`: concretise the byte offset (the 9-byte read-modify-write body only finishes in CBMC
/// when the window position is concrete; the offset-overflow clause is then outside the instance)
fn h_binary_set_at(len1: usize, fixed_bo: Option<i128>) {
    const N: usize = 10;
    let (bytes, len) = any_bytes::<N>(len1);
    let bo: i128 = match fixed_bo { Some(b) => b, None => kani::any() };
    let bi: i128 = kani::any();
    let val: i128 = kani::any();
    let nb: i128 = kani::any();
    let mut ex = Ex::new();
    let bin = ex.allocate_binary(bytes[..len].to_vec()).unwrap();
    let fields = [Value::Binary(bin), int(bo), int(bi), int(val), int(nb)];
    let arg = tuple(&fields);
    let r = builtin_binary_set::<NoEffect>(0, &arg, &mut ex);
    let shape_ok = bo >= 0
        && (0..=7).contains(&bi)
        && (1..=64).contains(&nb)
        && bo < (1i128 << 64)
        && bo * 8 + bi + nb <= (len as i128) * 8;
    let value_ok = val >= 0 && (nb >= 127 || val < (1i128 << (if nb >= 1 && nb <= 64 { nb } else { 1 }) as u32));
    // a value in [2^63, 2^64) with num_bits = 64 is rejected by the 64-bit narrowing: lenient
    let in_domain = shape_ok && value_ok && fits_i64(val);
    match r {
        Ok(BuiltinResult::Value(v)) => {
            assert!(shape_ok && value_ok, "value returned outside the documented domain");
            let w = be_window::<N>(&bytes, len);
            let total = (N * 8) as u32;
            let start = (bo * 8 + bi) as u32;
            let shift = total - start - (nb as u32);
            let field: u128 = if nb == 64 { u64::MAX as u128 } else { (1u128 << (nb as u32)) - 1 };
            let wn = (w & !(field << shift)) | ((val as u128) << shift);
            let mut want = [0u8; N];
            let mut i = 0;
            while i < N {
                want[i] = ((wn >> (8 * (N - 1 - i))) & 0xff) as u8;
                i += 1;
            }
            expect_bytes::<N>(&ex, &v, &want, len);
            kani::cover!(bi > 0 && nb > 56, "field spans nine bytes");
        }
        Err(_) => assert!(!in_domain, "clean error only outside the documented domain"),
        _ => assert!(false, "unexpected result kind"),
    }
    core::mem::forget(ex);
}

// ---------------------------------------------------------------------------------------------
// binary_shift([bin, amount]) -> bin    (logical shift of the whole bit string)

fn h_binary_shift(len1: usize) {
    const N: usize = 4;
    let (bytes, len) = any_bytes::<N>(len1);
    let amt: i128 = kani::any();
    let mut ex = Ex::new();
    let bin = ex.allocate_binary(bytes[..len].to_vec()).unwrap();
    let fields = [Value::Binary(bin), int(amt)];
    let arg = tuple(&fields);
    let r = builtin_binary_shift::<NoEffect>(0, &arg, &mut ex);
    match r {
        Ok(BuiltinResult::Value(v)) => {
            assert!(fits_i64(amt), "value returned for a shift amount that does not fit 64 bits");
            let bits = (len * 8) as u32;
            // the bit string as an integer of `bits` bits
            let mut w: u64 = 0;
            let mut i = 0;
            while i < N {
                if i < len {
                    w = (w << 8) | (bytes[i] as u64);
                }
                i += 1;
            }
            let mask: u64 = if bits == 0 { 0 } else { (1u64 << bits) - 1 };
            let mag: u128 = if amt < 0 { (-amt) as u128 } else { amt as u128 };
            let out: u64 = if mag >= bits as u128 {
                0
            } else if amt >= 0 {
                (w << (mag as u32)) & mask
            } else {
                w >> (mag as u32)
            };
            let mut want = [0u8; N];
            let mut j = 0;
            while j < N {
                if j < len {
                    want[j] = ((out >> (8 * (len - 1 - j))) & 0xff) as u8;
                }
                j += 1;
            }
            expect_bytes::<N>(&ex, &v, &want, len);
            kani::cover!(mag >= (1u128 << 32), "shift amount beyond 32 bits");
        }
        Err(_) => assert!(!fits_i64(amt), "clean error only when the amount does not fit 64 bits"),
        _ => assert!(false, "unexpected result kind"),
    }
    core::mem::forget(ex);
}

// ---------------------------------------------------------------------------------------------
// binary_slice([bin, start, end]) -> bin

fn h_binary_slice(len1: usize) {
    const N: usize = 6;
    let (bytes, len) = any_bytes::<N>(len1);
    let start: i128 = kani::any();
    let end: i128 = kani::any();
    let mut ex = Ex::new();
    let bin = ex.allocate_binary(bytes[..len].to_vec()).unwrap();
    let fields = [Value::Binary(bin), int(start), int(end)];
    let arg = tuple(&fields);
    let r = builtin_binary_slice::<NoEffect>(0, &arg, &mut ex);
    let in_domain = 0 <= start && start <= end && end <= len as i128;
    match r {
        Ok(BuiltinResult::Value(v)) => {
            assert!(in_domain, "value returned outside the documented domain");
            let mut want = [0u8; N];
            let s = start as usize;
            let n = (end - start) as usize;
            let mut i = 0;
            while i < N {
                if i < n {
                    want[i] = bytes[s + i];
                }
                i += 1;
            }
            expect_bytes::<N>(&ex, &v, &want, n);
        }
        Err(_) => assert!(!in_domain, "clean error only outside the documented domain"),
        _ => assert!(false, "unexpected result kind"),
    }
    core::mem::forget(ex);
}

// ---------------------------------------------------------------------------------------------
// binary_concat / binary_length / binary_new / binary_repeat

fn h_binary_concat_length(len1: usize, len2: usize) {
    const N: usize = 3;
    let (a, la) = any_bytes::<N>(len1);
    let (b, lb) = any_bytes::<N>(len2);
    let mut ex = Ex::new();
    let ba = ex.allocate_binary(a[..la].to_vec()).unwrap();
    let bb = ex.allocate_binary(b[..lb].to_vec()).unwrap();
    let fields = [Value::Binary(ba), Value::Binary(bb)];
    let arg = tuple(&fields);
    match builtin_binary_concat::<NoEffect>(0, &arg, &mut ex) {
        Ok(BuiltinResult::Value(v)) => {
            let mut want = [0u8; 6];
            let mut i = 0;
            while i < 6 {
                if i < la {
                    want[i] = a[i];
                } else if i < la + lb {
                    want[i] = b[i - la];
                }
                i += 1;
            }
            expect_bytes::<6>(&ex, &v, &want, la + lb);
            match builtin_binary_length::<NoEffect>(0, &v, &mut ex) {
                Ok(BuiltinResult::Value(Value::Integer(n))) => assert!(n.0 == (la + lb) as i128),
                _ => assert!(false, "binary_length failed"),
            }
        }
        _ => assert!(false, "binary_concat of small binaries must succeed"),
    }
    core::mem::forget(ex);
}

fn h_binary_new() {
    let size: i128 = kani::any();
    let mut ex = Ex::new();
    let arg = int(size);
    let r = builtin_binary_new::<NoEffect>(0, &arg, &mut ex);
    let in_domain = size >= 0 && size <= crate::value::MAX_BINARY_SIZE as i128;
    match r {
        Ok(BuiltinResult::Value(Value::Binary(b))) => {
            assert!(in_domain, "value returned outside the documented domain");
            let d = ex.get_binary_data(&b).unwrap();
            assert!(d.len() as i128 == size);
            let k: usize = kani::any();
            kani::assume((k as i128) < size);
            assert!(d.byte_at(k) == Some(0));
        }
        Err(_) => assert!(!in_domain, "clean error only outside the documented domain"),
        _ => assert!(false, "unexpected result kind"),
    }
    core::mem::forget(ex);
}

fn h_binary_repeat(len1: usize) {
    const N: usize = 3;
    let (u, lu) = any_bytes::<N>(len1);
    let count: i128 = kani::any();
    let mut ex = Ex::new();
    let bu = ex.allocate_binary(u[..lu].to_vec()).unwrap();
    let fields = [Value::Binary(bu), int(count)];
    let arg = tuple(&fields);
    let r = builtin_binary_repeat::<NoEffect>(0, &arg, &mut ex);
    let total = (lu as i128) * (if count > 0 && count < (1i128 << 64) { count } else { 0 });
    let in_domain = count >= 0 && count < (1i128 << 64) && total <= crate::value::MAX_BINARY_SIZE as i128;
    match r {
        Ok(BuiltinResult::Value(Value::Binary(b))) => {
            assert!(in_domain, "value returned outside the documented domain (size limit)");
            let d = ex.get_binary_data(&b).unwrap();
            assert!(d.len() as i128 == total, "repeat length");
            let k: usize = kani::any();
            kani::assume((k as i128) < total);
            assert!(d.byte_at(k) == Some(u[k % lu]), "repeat content");
        }
        Err(_) => assert!(!in_domain, "clean error only outside the documented domain"),
        _ => assert!(false, "unexpected result kind"),
    }
    core::mem::forget(ex);
}

// ---------------------------------------------------------------------------------------------
// bytewise logic

fn h_binary_logic(len1: usize, len2: usize) {
    const N: usize = 3;
    let (a, la) = any_bytes::<N>(len1);
    let (b, lb) = any_bytes::<N>(len2);
    let which: u8 = kani::any();
    kani::assume(which < 4);
    let mut ex = Ex::new();
    let ba = ex.allocate_binary(a[..la].to_vec()).unwrap();
    let bb = ex.allocate_binary(b[..lb].to_vec()).unwrap();
    let fields = [Value::Binary(ba), Value::Binary(bb)];
    let arg = tuple(&fields);
    let single = Value::Binary(ba);
    let r = match which {
        0 => builtin_binary_and::<NoEffect>(0, &arg, &mut ex),
        1 => builtin_binary_or::<NoEffect>(0, &arg, &mut ex),
        2 => builtin_binary_xor::<NoEffect>(0, &arg, &mut ex),
        _ => builtin_binary_not::<NoEffect>(0, &single, &mut ex),
    };
    let want_len = match which {
        0 => if la < lb { la } else { lb },
        1 | 2 => if la > lb { la } else { lb },
        _ => la,
    };
    let mut want = [0u8; N];
    let mut i = 0;
    while i < N {
        let x = if i < la { a[i] } else { 0 };
        let y = if i < lb { b[i] } else { 0 };
        want[i] = match which {
            0 => x & y,
            1 => x | y,
            2 => x ^ y,
            _ => !x,
        };
        i += 1;
    }
    match r {
        Ok(BuiltinResult::Value(v)) => expect_bytes::<N>(&ex, &v, &want, want_len),
        _ => assert!(false, "bytewise logic on small binaries must succeed"),
    }
    core::mem::forget(ex);
}

// ---------------------------------------------------------------------------------------------
// binary_index([bin, byte, offset]) -> int | []

fn h_binary_index(len1: usize) {
    const N: usize = 5;
    let (bytes, len) = any_bytes::<N>(len1);
    let byte: i128 = kani::any();
    let off: i128 = kani::any();
    let mut ex = Ex::new();
    let bin = ex.allocate_binary(bytes[..len].to_vec()).unwrap();
    let fields = [Value::Binary(bin), int(byte), int(off)];
    let arg = tuple(&fields);
    let r = builtin_binary_index::<NoEffect>(0, &arg, &mut ex);
    let in_domain = (0..=255).contains(&byte) && off >= 0 && off < (1i128 << 64);
    match r {
        Ok(BuiltinResult::Value(v)) => {
            assert!(in_domain, "value returned outside the documented domain");
            let mut want: i128 = -1;
            let mut i = N;
            while i > 0 {
                i -= 1;
                if i < len && (i as i128) >= off && bytes[i] as i128 == byte {
                    want = i as i128;
                }
            }
            match v {
                Value::Integer(n) => assert!(want >= 0 && n.0 == want, "binary_index position"),
                other => assert!(want < 0 && other.is_nil(), "binary_index must be nil when absent"),
            }
        }
        Err(_) => assert!(!in_domain, "clean error only outside the documented domain"),
        _ => assert!(false, "unexpected result kind"),
    }
    core::mem::forget(ex);
}

// ---------------------------------------------------------------------------------------------
// binary_popcount / hash32 / hash64

fn h_binary_popcount_hash(len1: usize) {
    const N: usize = 3;
    let (bytes, len) = any_bytes::<N>(len1);
    let mut ex = Ex::new();
    let bin = ex.allocate_binary(bytes[..len].to_vec()).unwrap();
    let arg = Value::Binary(bin);
    let mut pop: i128 = 0;
    let mut h32: u32 = 2166136261;
    let mut h64: u64 = 14695981039346656037;
    let mut i = 0;
    while i < N {
        if i < len {
            pop += bytes[i].count_ones() as i128;
            h32 = (h32 ^ bytes[i] as u32).wrapping_mul(16777619);
            h64 = (h64 ^ bytes[i] as u64).wrapping_mul(1099511628211);
        }
        i += 1;
    }
    match builtin_binary_popcount::<NoEffect>(0, &arg, &mut ex) {
        Ok(BuiltinResult::Value(Value::Integer(n))) => assert!(n.0 == pop, "popcount"),
        _ => assert!(false, "popcount failed"),
    }
    match builtin_binary_hash32::<NoEffect>(0, &arg, &mut ex) {
        Ok(BuiltinResult::Value(Value::Integer(n))) => assert!(n.0 == h32 as i128, "hash32 is FNV-1a"),
        _ => assert!(false, "hash32 failed"),
    }
    match builtin_binary_hash64::<NoEffect>(0, &arg, &mut ex) {
        Ok(BuiltinResult::Value(Value::Integer(n))) => assert!(n.0 == (h64 as i64) as i128, "hash64 is FNV-1a (wrapped to i64, as documented in the source)"),
        _ => assert!(false, "hash64 failed"),
    }
    core::mem::forget(ex);
}

// ---------------------------------------------------------------------------------------------
// binary_append([bin, value, num_bytes]) -> bin

fn h_binary_append(len1: usize) {
    const N: usize = 2;
    let (bytes, len) = any_bytes::<N>(len1);
    let val: i128 = kani::any();
    let nbytes: i128 = kani::any();
    let mut ex = Ex::new();
    let bin = ex.allocate_binary(bytes[..len].to_vec()).unwrap();
    let fields = [Value::Binary(bin), int(val), int(nbytes)];
    let arg = tuple(&fields);
    let r = builtin_binary_append::<NoEffect>(0, &arg, &mut ex);
    let shape_ok = (1..=8).contains(&nbytes) && val >= 0 && (nbytes == 8 && val < (1i128 << 64) || nbytes < 8 && nbytes >= 1 && val < (1i128 << ((nbytes as u32) * 8)));
    let in_domain = shape_ok && fits_i64(val);
    match r {
        Ok(BuiltinResult::Value(v)) => {
            assert!(shape_ok, "value returned outside the documented domain");
            let nb = nbytes as usize;
            let mut want = [0u8; 10];
            let mut i = 0;
            while i < 10 {
                if i < len {
                    want[i] = bytes[i];
                } else if i < len + nb {
                    let k = i - len;
                    want[i] = (((val as u128) >> (8 * (nb - 1 - k))) & 0xff) as u8;
                }
                i += 1;
            }
            expect_bytes::<10>(&ex, &v, &want, len + nb);
        }
        Err(_) => assert!(!in_domain, "clean error only outside the documented domain"),
        _ => assert!(false, "unexpected result kind"),
    }
    core::mem::forget(ex);
}

// ---------------------------------------------------------------------------------------------
// 64-bit integer bitwise builtins

fn h_integer_bitwise() {
    let a: i128 = kani::any();
    let b: i128 = kani::any();
    let which: u8 = kani::any();
    kani::assume(which < 5);
    let mut ex = Ex::new();
    let fields = [int(a), int(b)];
    let arg = tuple(&fields);
    let single = int(a);
    let r = match which {
        0 => builtin_integer_and::<NoEffect>(0, &arg, &mut ex),
        1 => builtin_integer_or::<NoEffect>(0, &arg, &mut ex),
        2 => builtin_integer_xor::<NoEffect>(0, &arg, &mut ex),
        3 => builtin_integer_not::<NoEffect>(0, &single, &mut ex),
        _ => builtin_integer_popcount::<NoEffect>(0, &single, &mut ex),
    };
    let in_domain = fits_i64(a) && (which >= 3 || fits_i64(b));
    match r {
        Ok(BuiltinResult::Value(Value::Integer(n))) => {
            assert!(in_domain, "value returned for operands that do not fit 64 bits");
            let x = a as i64;
            let y = b as i64;
            let want: i128 = match which {
                0 => (x & y) as i128,
                1 => (x | y) as i128,
                2 => (x ^ y) as i128,
                3 => (!x) as i128,
                _ => (x as u64).count_ones() as i128,
            };
            assert!(n.0 == want, "64-bit bitwise result");
        }
        Err(_) => assert!(!in_domain, "clean error only when an operand does not fit 64 bits"),
        _ => assert!(false, "unexpected result kind"),
    }
}

fn h_integer_shift() {
    let a: i128 = kani::any();
    let s: i128 = kani::any();
    let mut ex = Ex::new();
    let fields = [int(a), int(s)];
    let arg = tuple(&fields);
    let r = builtin_integer_shift::<NoEffect>(0, &arg, &mut ex);
    let in_domain = fits_i64(a) && fits_i64(s);
    match r {
        Ok(BuiltinResult::Value(Value::Integer(n))) => {
            assert!(in_domain, "value returned for operands that do not fit 64 bits");
            let x = a as i64;
            // documented 64-bit semantics: left shift keeps the low 64 bits, right shift is arithmetic
            let want: i64 = if s == 0 {
                x
            } else if s > 0 {
                if s >= 64 { 0 } else { ((x as u64) << (s as u32)) as i64 }
            } else if s <= -64 {
                if x >= 0 { 0 } else { -1 }
            } else {
                x >> ((-s) as u32)
            };
            assert!(n.0 == want as i128, "integer_shift result");
        }
        Err(_) => assert!(!in_domain, "clean error only when an operand does not fit 64 bits"),
        _ => assert!(false, "unexpected result kind"),
    }
}

// ---------------------------------------------------------------------------------------------
// packed-vector kernels (little-endian signed lanes of 4 or 8 bytes)

fn ref_lane(bytes: &[u8; 8], width: usize, i: usize) -> i64 {
    if width == 4 {
        let o = i * 4;
        i32::from_le_bytes([bytes[o], bytes[o + 1], bytes[o + 2], bytes[o + 3]]) as i64
    } else {
        i64::from_le_bytes(*bytes)
    }
}

fn h_vector_get(len1: usize) {
    let (bytes, len) = any_bytes::<8>(len1);
    let width: i128 = kani::any();
    let index: i128 = kani::any();
    let mut ex = Ex::new();
    let bin = ex.allocate_binary(bytes[..len].to_vec()).unwrap();
    let fields = [Value::Binary(bin), int(width), int(index)];
    let arg = tuple(&fields);
    let r = builtin_vector_get::<NoEffect>(0, &arg, &mut ex);
    let width_ok = width == 4 || width == 8;
    match r {
        Ok(BuiltinResult::Value(v)) => {
            assert!(width_ok, "value returned for an unsupported lane width");
            let w = width as usize;
            let present = index >= 0 && index < (1i128 << 64) && len % w == 0 && (index + 1) * (w as i128) <= len as i128;
            match v {
                Value::Integer(n) => {
                    assert!(present, "lane returned for an absent index");
                    assert!(n.0 == ref_lane(&bytes, w, index as usize) as i128, "lane value");
                }
                other => assert!(!present && other.is_nil(), "nil only for an absent lane"),
            }
        }
        Err(_) => assert!(!width_ok, "clean error only for an unsupported width"),
        _ => assert!(false, "unexpected result kind"),
    }
    core::mem::forget(ex);
}

fn h_vector_push(len1: usize) {
    let (bytes, len) = any_bytes::<8>(len1);
    let width: i128 = kani::any();
    let value: i128 = kani::any();
    let mut ex = Ex::new();
    let bin = ex.allocate_binary(bytes[..len].to_vec()).unwrap();
    let fields = [Value::Binary(bin), int(width), int(value)];
    let arg = tuple(&fields);
    let r = builtin_vector_push::<NoEffect>(0, &arg, &mut ex);
    let width_ok = width == 4 || width == 8;
    match r {
        Ok(BuiltinResult::Value(v)) => {
            assert!(width_ok, "value returned for an unsupported lane width");
            let w = width as usize;
            let fits = if w == 4 { value >= i32::MIN as i128 && value <= i32::MAX as i128 } else { fits_i64(value) };
            let ok = fits && len % w == 0;
            if ok {
                let mut want = [0u8; 16];
                let le = (value as i64).to_le_bytes();
                let mut i = 0;
                while i < 16 {
                    if i < len {
                        want[i] = bytes[i];
                    } else if i < len + w {
                        want[i] = le[i - len];
                    }
                    i += 1;
                }
                expect_bytes::<16>(&ex, &v, &want, len + w);
            } else {
                assert!(v.is_nil(), "nil when the value does not fit or the buffer is ragged");
            }
        }
        Err(_) => assert!(!width_ok, "clean error only for an unsupported width"),
        _ => assert!(false, "unexpected result kind"),
    }
    core::mem::forget(ex);
}

fn h_vector_elementwise(len1: usize, len2: usize) {
    let (a, la) = any_bytes::<8>(len1);
    let (b, lb) = any_bytes::<8>(len2);
    let width: i128 = kani::any();
    let which: u8 = kani::any();
    kani::assume(which < 6);
    let mut ex = Ex::new();
    let ba = ex.allocate_binary(a[..la].to_vec()).unwrap();
    let bb = ex.allocate_binary(b[..lb].to_vec()).unwrap();
    let fields = [Value::Binary(ba), Value::Binary(bb), int(width)];
    let arg = tuple(&fields);
    let r = match which {
        0 => builtin_vector_add::<NoEffect>(0, &arg, &mut ex),
        1 => builtin_vector_subtract::<NoEffect>(0, &arg, &mut ex),
        2 => builtin_vector_multiply::<NoEffect>(0, &arg, &mut ex),
        3 => builtin_vector_less_than::<NoEffect>(0, &arg, &mut ex),
        4 => builtin_vector_equal::<NoEffect>(0, &arg, &mut ex),
        _ => builtin_vector_greater_than::<NoEffect>(0, &arg, &mut ex),
    };
    let width_ok = width == 4 || width == 8;
    match r {
        Ok(BuiltinResult::Value(v)) => {
            assert!(width_ok, "value returned for an unsupported lane width");
            let w = width as usize;
            let shape_ok = la == lb && la % w == 0;
            if !shape_ok {
                assert!(v.is_nil(), "nil on length mismatch or ragged buffer");
            } else {
                let lanes = la / w;
                let mut want = [0u8; 8];
                let mut want_len = 0usize;
                let mut overflow = false;
                let mut i = 0;
                while i < 2 {
                    if i < lanes {
                        let x = ref_lane(&a, w, i) as i128;
                        let y = ref_lane(&b, w, i) as i128;
                        if which < 3 {
                            let z = match which { 0 => x + y, 1 => x - y, _ => x * y };
                            let fits = if w == 4 { z >= i32::MIN as i128 && z <= i32::MAX as i128 } else { fits_i64(z) };
                            if !fits {
                                overflow = true;
                            } else {
                                let le = (z as i64).to_le_bytes();
                                let mut k = 0;
                                while k < 8 {
                                    if k < w { want[i * w + k] = le[k]; }
                                    k += 1;
                                }
                            }
                            want_len = lanes * w;
                        } else {
                            let p = match which { 3 => x < y, 4 => x == y, _ => x > y };
                            want[i] = p as u8;
                            want_len = lanes;
                        }
                    }
                    i += 1;
                }
                if overflow {
                    assert!(v.is_nil(), "nil when a lane overflows its width");
                } else {
                    expect_bytes::<8>(&ex, &v, &want, want_len);
                }
            }
        }
        Err(_) => assert!(!width_ok, "clean error only for an unsupported width"),
        _ => assert!(false, "unexpected result kind"),
    }
    core::mem::forget(ex);
}

fn h_vector_reduce(len1: usize, len2: usize) {
    let (a, la) = any_bytes::<8>(len1);
    let (b, lb) = any_bytes::<8>(len2);
    let width: i128 = kani::any();
    let dot: bool = kani::any();
    let mut ex = Ex::new();
    let ba = ex.allocate_binary(a[..la].to_vec()).unwrap();
    let bb = ex.allocate_binary(b[..lb].to_vec()).unwrap();
    let f3 = [Value::Binary(ba), Value::Binary(bb), int(width)];
    let f2 = [Value::Binary(ba), int(width)];
    let r = if dot {
        builtin_vector_dot::<NoEffect>(0, &tuple(&f3), &mut ex)
    } else {
        builtin_vector_sum::<NoEffect>(0, &tuple(&f2), &mut ex)
    };
    let width_ok = width == 4 || width == 8;
    match r {
        Ok(BuiltinResult::Value(v)) => {
            assert!(width_ok, "value returned for an unsupported lane width");
            let w = width as usize;
            let shape_ok = la % w == 0 && (!dot || la == lb);
            if !shape_ok {
                assert!(v.is_nil(), "nil on length mismatch or ragged buffer");
            } else {
                let lanes = la / w;
                let mut acc: i128 = 0;
                let mut i = 0;
                while i < 2 {
                    if i < lanes {
                        let x = ref_lane(&a, w, i) as i128;
                        acc += if dot { x * (ref_lane(&b, w, i) as i128) } else { x };
                    }
                    i += 1;
                }
                match v {
                    Value::Integer(n) => assert!(n.0 == acc, "exact reduction"),
                    _ => assert!(false, "reduction must return an integer"),
                }
            }
        }
        Err(_) => assert!(!width_ok, "clean error only for an unsupported width"),
        _ => assert!(false, "unexpected result kind"),
    }
    core::mem::forget(ex);
}

// vector_dot over two 8-byte lanes (16-byte buffers, width 8 only): the exact sum of two products
// of i64 lanes can need 128 bits, one more than the i128 that stands in for BigInt here.  Where
// the exact value is representable the result must equal it; where it is not, the only claim is
// that the builtin returns (its own arithmetic must not overflow a machine word - CBMC's overflow
// checks apply to the real body, not to the stand-in's wrapping operations).
fn h_vector_dot16() {
    let a: [u8; 16] = kani::any();
    // Two fully symbolic 64x64-bit products exhaust CBMC (24 GB); the second operand's lanes
    // range over the boundary magnitudes the property names instead (the first stays arbitrary).
    const EDGE: [i64; 6] = [i64::MIN, i64::MAX, -1, 1, 0, 1 << 32];
    let s0: usize = kani::any();
    let s1: usize = kani::any();
    kani::assume(s0 < 6 && s1 < 6);
    let mut b = [0u8; 16];
    let l0 = EDGE[s0].to_le_bytes();
    let l1 = EDGE[s1].to_le_bytes();
    let mut k = 0;
    while k < 8 {
        b[k] = l0[k];
        b[8 + k] = l1[k];
        k += 1;
    }
    let mut ex = Ex::new();
    let ba = ex.allocate_binary(a.to_vec()).unwrap();
    let bb = ex.allocate_binary(b.to_vec()).unwrap();
    let f3 = [Value::Binary(ba), Value::Binary(bb), int(8)];
    let r = builtin_vector_dot::<NoEffect>(0, &tuple(&f3), &mut ex);
    let lane = |x: &[u8; 16], i: usize| -> i128 {
        let o = i * 8;
        i64::from_le_bytes([x[o], x[o + 1], x[o + 2], x[o + 3], x[o + 4], x[o + 5], x[o + 6], x[o + 7]]) as i128
    };
    let p0 = lane(&a, 0) * lane(&b, 0);       // |p| <= 2^126: fits
    let p1 = lane(&a, 1) * lane(&b, 1);
    match r {
        Ok(BuiltinResult::Value(v)) => match p0.checked_add(p1) {
            Some(exact) => match v {
                Value::Integer(n) => assert!(n.0 == exact, "exact dot product"),
                _ => assert!(false, "dot product must return an integer"),
            },
            None => {
                kani::cover!(true, "sum of products beyond 127 bits");
            }
        },
        _ => assert!(false, "unexpected result kind"),
    }
    core::mem::forget(ex);
}

fn h_vector_take(len1: usize, len2: usize) {
    let (d, ld) = any_bytes::<8>(len1);
    let (m, lm) = any_bytes::<2>(len2);
    let width: i128 = kani::any();
    let mut ex = Ex::new();
    let bd = ex.allocate_binary(d[..ld].to_vec()).unwrap();
    let bm = ex.allocate_binary(m[..lm].to_vec()).unwrap();
    let fields = [Value::Binary(bd), int(width), Value::Binary(bm)];
    let arg = tuple(&fields);
    let r = builtin_vector_take::<NoEffect>(0, &arg, &mut ex);
    let width_ok = width == 4 || width == 8;
    match r {
        Ok(BuiltinResult::Value(v)) => {
            assert!(width_ok, "value returned for an unsupported lane width");
            let w = width as usize;
            let shape_ok = ld % w == 0 && lm == ld / w;
            if !shape_ok {
                assert!(v.is_nil(), "nil on mask/lanes mismatch or ragged buffer");
            } else {
                let mut want = [0u8; 8];
                let mut n = 0usize;
                let mut i = 0;
                while i < 2 {
                    if i < lm && m[i] != 0 {
                        let mut k = 0;
                        while k < 8 {
                            if k < w { want[n + k] = d[i * w + k]; }
                            k += 1;
                        }
                        n += w;
                    }
                    i += 1;
                }
                expect_bytes::<8>(&ex, &v, &want, n);
            }
        }
        Err(_) => assert!(!width_ok, "clean error only for an unsupported width"),
        _ => assert!(false, "unexpected result kind"),
    }
    core::mem::forget(ex);
}

// ---------------------------------------------------------------------------------------------

// ---------------------------------------------------------------------------------------------
// harness instances: one per (builtin, concrete argument-binary length(s))

#[kani::proof]
#[kani::unwind(11)]
#[kani::stub(alloc::fmt::format, fmt_stub)]
fn c12_binary_get__0() {
    h_binary_get(0);
}

#[kani::proof]
#[kani::unwind(11)]
#[kani::stub(alloc::fmt::format, fmt_stub)]
fn c12_binary_get__1() {
    h_binary_get(1);
}

#[kani::proof]
#[kani::unwind(11)]
#[kani::stub(alloc::fmt::format, fmt_stub)]
fn c12_binary_get__8() {
    h_binary_get(8);
}

#[kani::proof]
#[kani::unwind(11)]
#[kani::stub(alloc::fmt::format, fmt_stub)]
fn c12_binary_get__9() {
    h_binary_get(9);
}

#[kani::proof]
#[kani::unwind(12)]
#[kani::stub(alloc::fmt::format, fmt_stub)]
fn c12_binary_set_window__9() {
    h_binary_set_at(9, Some(0));
}

#[kani::proof]
#[kani::unwind(12)]
#[kani::stub(alloc::fmt::format, fmt_stub)]
fn c12_binary_set__1() {
    h_binary_set(1);
}

#[kani::proof]
#[kani::unwind(12)]
#[kani::stub(alloc::fmt::format, fmt_stub)]
fn c12_binary_set__9() {
    h_binary_set(9);
}

#[kani::proof]
#[kani::unwind(12)]
#[kani::stub(alloc::fmt::format, fmt_stub)]
fn c12_binary_set__10() {
    h_binary_set(10);
}

#[kani::proof]
#[kani::unwind(6)]
#[kani::stub(alloc::fmt::format, fmt_stub)]
fn c12_binary_shift__0() {
    h_binary_shift(0);
}

#[kani::proof]
#[kani::unwind(6)]
#[kani::stub(alloc::fmt::format, fmt_stub)]
fn c12_binary_shift__1() {
    h_binary_shift(1);
}

#[kani::proof]
#[kani::unwind(6)]
#[kani::stub(alloc::fmt::format, fmt_stub)]
fn c12_binary_shift__3() {
    h_binary_shift(3);
}

#[kani::proof]
#[kani::unwind(6)]
#[kani::stub(alloc::fmt::format, fmt_stub)]
fn c12_binary_shift__4() {
    h_binary_shift(4);
}

#[kani::proof]
#[kani::unwind(8)]
#[kani::stub(alloc::fmt::format, fmt_stub)]
fn c12_binary_slice__0() {
    h_binary_slice(0);
}

#[kani::proof]
#[kani::unwind(8)]
#[kani::stub(alloc::fmt::format, fmt_stub)]
fn c12_binary_slice__3() {
    h_binary_slice(3);
}

#[kani::proof]
#[kani::unwind(8)]
#[kani::stub(alloc::fmt::format, fmt_stub)]
fn c12_binary_slice__6() {
    h_binary_slice(6);
}

#[kani::proof]
#[kani::unwind(10)]
#[kani::stub(alloc::fmt::format, fmt_stub)]
fn c12_binary_concat_length__0_0() {
    h_binary_concat_length(0, 0);
}

#[kani::proof]
#[kani::unwind(10)]
#[kani::stub(alloc::fmt::format, fmt_stub)]
fn c12_binary_concat_length__0_2() {
    h_binary_concat_length(0, 2);
}

#[kani::proof]
#[kani::unwind(10)]
#[kani::stub(alloc::fmt::format, fmt_stub)]
fn c12_binary_concat_length__3_0() {
    h_binary_concat_length(3, 0);
}

#[kani::proof]
#[kani::unwind(10)]
#[kani::stub(alloc::fmt::format, fmt_stub)]
fn c12_binary_concat_length__2_3() {
    h_binary_concat_length(2, 3);
}

#[kani::proof]
#[kani::unwind(4)]
#[kani::stub(alloc::fmt::format, fmt_stub)]
fn c12_binary_new() {
    h_binary_new();
}

#[kani::proof]
#[kani::unwind(5)]
#[kani::stub(alloc::fmt::format, fmt_stub)]
fn c12_binary_repeat__0() {
    h_binary_repeat(0);
}

#[kani::proof]
#[kani::unwind(5)]
#[kani::stub(alloc::fmt::format, fmt_stub)]
fn c12_binary_repeat__1() {
    h_binary_repeat(1);
}

#[kani::proof]
#[kani::unwind(5)]
#[kani::stub(alloc::fmt::format, fmt_stub)]
fn c12_binary_repeat__3() {
    h_binary_repeat(3);
}

#[kani::proof]
#[kani::unwind(6)]
#[kani::stub(alloc::fmt::format, fmt_stub)]
fn c12_binary_logic__0_0() {
    h_binary_logic(0, 0);
}

#[kani::proof]
#[kani::unwind(6)]
#[kani::stub(alloc::fmt::format, fmt_stub)]
fn c12_binary_logic__1_3() {
    h_binary_logic(1, 3);
}

#[kani::proof]
#[kani::unwind(6)]
#[kani::stub(alloc::fmt::format, fmt_stub)]
fn c12_binary_logic__3_1() {
    h_binary_logic(3, 1);
}

#[kani::proof]
#[kani::unwind(6)]
#[kani::stub(alloc::fmt::format, fmt_stub)]
fn c12_binary_logic__3_3() {
    h_binary_logic(3, 3);
}

#[kani::proof]
#[kani::unwind(8)]
#[kani::stub(alloc::fmt::format, fmt_stub)]
fn c12_binary_index__0() {
    h_binary_index(0);
}

#[kani::proof]
#[kani::unwind(8)]
#[kani::stub(alloc::fmt::format, fmt_stub)]
fn c12_binary_index__1() {
    h_binary_index(1);
}

#[kani::proof]
#[kani::unwind(8)]
#[kani::stub(alloc::fmt::format, fmt_stub)]
fn c12_binary_index__5() {
    h_binary_index(5);
}

#[kani::proof]
#[kani::unwind(6)]
#[kani::stub(alloc::fmt::format, fmt_stub)]
fn c12_binary_popcount_hash__0() {
    h_binary_popcount_hash(0);
}

#[kani::proof]
#[kani::unwind(6)]
#[kani::stub(alloc::fmt::format, fmt_stub)]
fn c12_binary_popcount_hash__1() {
    h_binary_popcount_hash(1);
}

#[kani::proof]
#[kani::unwind(6)]
#[kani::stub(alloc::fmt::format, fmt_stub)]
fn c12_binary_popcount_hash__3() {
    h_binary_popcount_hash(3);
}

#[kani::proof]
#[kani::unwind(13)]
#[kani::stub(alloc::fmt::format, fmt_stub)]
fn c12_binary_append__0() {
    h_binary_append(0);
}

#[kani::proof]
#[kani::unwind(13)]
#[kani::stub(alloc::fmt::format, fmt_stub)]
fn c12_binary_append__2() {
    h_binary_append(2);
}

#[kani::proof]
#[kani::stub(alloc::fmt::format, fmt_stub)]
fn c12_integer_bitwise() {
    h_integer_bitwise();
}

#[kani::proof]
#[kani::stub(alloc::fmt::format, fmt_stub)]
fn c12_integer_shift() {
    h_integer_shift();
}

#[kani::proof]
#[kani::unwind(10)]
#[kani::stub(alloc::fmt::format, fmt_stub)]
fn c12_vector_get__0() {
    h_vector_get(0);
}

#[kani::proof]
#[kani::unwind(10)]
#[kani::stub(alloc::fmt::format, fmt_stub)]
fn c12_vector_get__3() {
    h_vector_get(3);
}

#[kani::proof]
#[kani::unwind(10)]
#[kani::stub(alloc::fmt::format, fmt_stub)]
fn c12_vector_get__4() {
    h_vector_get(4);
}

#[kani::proof]
#[kani::unwind(10)]
#[kani::stub(alloc::fmt::format, fmt_stub)]
fn c12_vector_get__8() {
    h_vector_get(8);
}

#[kani::proof]
#[kani::unwind(18)]
#[kani::stub(alloc::fmt::format, fmt_stub)]
fn c12_vector_push__0() {
    h_vector_push(0);
}

#[kani::proof]
#[kani::unwind(18)]
#[kani::stub(alloc::fmt::format, fmt_stub)]
fn c12_vector_push__4() {
    h_vector_push(4);
}

#[kani::proof]
#[kani::unwind(18)]
#[kani::stub(alloc::fmt::format, fmt_stub)]
fn c12_vector_push__5() {
    h_vector_push(5);
}

#[kani::proof]
#[kani::unwind(18)]
#[kani::stub(alloc::fmt::format, fmt_stub)]
fn c12_vector_push__8() {
    h_vector_push(8);
}

#[kani::proof]
#[kani::unwind(10)]
#[kani::stub(alloc::fmt::format, fmt_stub)]
fn c12_vector_elementwise__4_4() {
    h_vector_elementwise(4, 4);
}

#[kani::proof]
#[kani::unwind(10)]
#[kani::stub(alloc::fmt::format, fmt_stub)]
fn c12_vector_elementwise__8_8() {
    h_vector_elementwise(8, 8);
}

#[kani::proof]
#[kani::unwind(10)]
#[kani::stub(alloc::fmt::format, fmt_stub)]
fn c12_vector_elementwise__4_8() {
    h_vector_elementwise(4, 8);
}

#[kani::proof]
#[kani::unwind(10)]
#[kani::stub(alloc::fmt::format, fmt_stub)]
fn c12_vector_elementwise__6_6() {
    h_vector_elementwise(6, 6);
}

#[kani::proof]
#[kani::unwind(10)]
#[kani::stub(alloc::fmt::format, fmt_stub)]
fn c12_vector_elementwise__0_0() {
    h_vector_elementwise(0, 0);
}

#[kani::proof]
#[kani::unwind(10)]
#[kani::stub(alloc::fmt::format, fmt_stub)]
fn c12_vector_reduce__4_4() {
    h_vector_reduce(4, 4);
}

#[kani::proof]
#[kani::unwind(10)]
#[kani::stub(alloc::fmt::format, fmt_stub)]
fn c12_vector_reduce__8_8() {
    h_vector_reduce(8, 8);
}

#[kani::proof]
#[kani::unwind(10)]
#[kani::stub(alloc::fmt::format, fmt_stub)]
fn c12_vector_reduce__8_4() {
    h_vector_reduce(8, 4);
}

#[kani::proof]
#[kani::unwind(10)]
#[kani::stub(alloc::fmt::format, fmt_stub)]
fn c12_vector_reduce__0_0() {
    h_vector_reduce(0, 0);
}

#[kani::proof]
#[kani::unwind(18)]
#[kani::stub(alloc::fmt::format, fmt_stub)]
fn c12_vector_dot16__16_16() {
    h_vector_dot16();
}

#[kani::proof]
#[kani::unwind(10)]
#[kani::stub(alloc::fmt::format, fmt_stub)]
fn c12_vector_take__8_2() {
    h_vector_take(8, 2);
}

#[kani::proof]
#[kani::unwind(10)]
#[kani::stub(alloc::fmt::format, fmt_stub)]
fn c12_vector_take__8_1() {
    h_vector_take(8, 1);
}

#[kani::proof]
#[kani::unwind(10)]
#[kani::stub(alloc::fmt::format, fmt_stub)]
fn c12_vector_take__4_1() {
    h_vector_take(4, 1);
}

#[kani::proof]
#[kani::unwind(10)]
#[kani::stub(alloc::fmt::format, fmt_stub)]
fn c12_vector_take__0_0() {
    h_vector_take(0, 0);
}

#[kani::proof]
#[kani::unwind(10)]
#[kani::stub(alloc::fmt::format, fmt_stub)]
fn c12_vector_take__5_1() {
    h_vector_take(5, 1);
}

// the REAL rope against the flat reference: results do not depend on how a binary was built.
// Shapes are built on the harness stack with CONCRETE structure (lengths, offsets), symbolic bytes,
// so that CBMC knows each node's variant; the repetition count of a tile is symbolic.

mod rope {
    use crate::real_binary::BinaryData as Rope;
    use std::rc::Rc;

    pub fn noop_drop(_b: &mut Rope) {}

    fn flat_find<const N: usize>(flat: &[u8; N], n: usize, needle: u8, from: usize) -> Option<usize> {
        let mut want: Option<usize> = None;
        let mut j = N;
        while j > 0 {
            j -= 1;
            if j < n && j >= from && flat[j] == needle {
                want = Some(j);
            }
        }
        want
    }

    fn check_against_flat<const N: usize>(r: &Rope, flat: &[u8; N], n: usize) {
        assert!(r.len() == n, "rope length");
        let mut k = 0;
        while k < N {
            if k < n {
                assert!(r.byte_at(k) == Some(flat[k]), "rope byte_at");
            }
            k += 1;
        }
        assert!(r.byte_at(n).is_none(), "rope byte_at past the end");
        let v = r.to_vec();
        assert!(v.len() == n, "rope to_vec length");
        let mut i = 0;
        while i < N {
            if i < n {
                assert!(v[i] == flat[i], "rope to_vec content");
            }
            i += 1;
        }
        let needle: u8 = kani::any();
        let mut from = 0;
        while from <= N {
            assert!(r.find_byte(needle, from) == flat_find::<N>(flat, n, needle, from), "rope find_byte");
            from += 1;
        }
    }

    /// Slice [off, off+length) of an owned buffer of `len` bytes.
    fn r_slice<const N: usize>(len: usize, off: usize, length: usize) {
        let bytes: [u8; N] = kani::any();
        let parent = Rc::new(Rope::new(bytes[..len].to_vec()));
        let s = Rope::slice(parent, off, length);
        let in_bounds = off <= len && length <= len - off.min(len);
        match &s {
            None => assert!(!in_bounds, "slice refuses only out-of-bounds requests"),
            Some(r) => {
                assert!(in_bounds, "slice accepts only in-bounds requests");
                let mut flat = [0u8; N];
                let mut i = 0;
                while i < N {
                    if i < length {
                        flat[i] = bytes[off + i];
                    }
                    i += 1;
                }
                check_against_flat::<N>(r, &flat, length);
            }
        }
        core::mem::forget(s);
    }

    /// Concatenation of two owned buffers, and a slice across the seam (depth 2).
    fn r_concat(la: usize, lb: usize, soff: usize, slen: usize) {
        const N: usize = 3;
        let a: [u8; N] = kani::any();
        let b: [u8; N] = kani::any();
        let r = Rope::concat(Rc::new(Rope::new(a[..la].to_vec())), Rc::new(Rope::new(b[..lb].to_vec())));
        let mut flat = [0u8; 6];
        let mut i = 0;
        while i < 6 {
            if i < la {
                flat[i] = a[i];
            } else if i < la + lb {
                flat[i] = b[i - la];
            }
            i += 1;
        }
        check_against_flat::<6>(&r, &flat, la + lb);
        if soff + slen <= la + lb && slen > 0 {
            let s = Rope::slice(Rc::new(r.clone()), soff, slen).unwrap();
            let mut f2 = [0u8; 6];
            let mut j = 0;
            while j < 6 {
                if j < slen {
                    f2[j] = flat[soff + j];
                }
                j += 1;
            }
            check_against_flat::<6>(&s, &f2, slen);
            core::mem::forget(s);
        }
        core::mem::forget(r);
    }

    /// Zero fill: content and search.
    fn r_zeroed(n: usize) {
        let z = Rope::zeroed(n);
        let flat = [0u8; 4];
        check_against_flat::<4>(&z, &flat, n);
        core::mem::forget(z);
    }

    /// A tile of a unit of `lu` bytes repeated a SYMBOLIC number of times: the length is the
    /// mathematical product — in particular it never wraps below the size limit, which is what
    /// the allocator's limit check relies on — and the content is periodic.
    fn r_tiled(lu: usize) {
        const N: usize = 2;
        let u: [u8; N] = kani::any();
        let count: usize = kani::any();
        kani::assume(count >= 2);
        let r = Rope::Tiled { unit: Rc::new(Rope::new(u[..lu].to_vec())), count };
        let math = (lu as u128) * (count as u128);
        if math > crate::value::MAX_BINARY_SIZE as u128 {
            assert!(r.len() > crate::value::MAX_BINARY_SIZE, "an over-long repetition must stay over the size limit");
        } else {
            assert!(r.len() as u128 == math, "repeat length is unit length times count");
            let k: usize = kani::any();
            kani::assume((k as u128) < math);
            assert!(r.byte_at(k) == Some(u[k % lu]), "repeat content is periodic");
        }
        core::mem::forget(r);
    }

    /// The constructor's normalisation of degenerate repetitions.
    fn r_tiled_small(lu: usize, count: usize) {
        const N: usize = 2;
        let u: [u8; N] = kani::any();
        let r = Rope::tiled(Rc::new(Rope::new(u[..lu].to_vec())), count);
        let mut flat = [0u8; 4];
        let mut i = 0;
        while i < 4 {
            if i < lu * count {
                flat[i] = u[i % lu];
            }
            i += 1;
        }
        check_against_flat::<4>(&r, &flat, lu * count);
        core::mem::forget(r);
    }

    /// find_byte / len / byte_at on a one-byte window `[off, off+1)` of a two-byte owned buffer,
    /// written without loops so that a recursion bound of 3 suffices (deeper unwinding of the
    /// recursive rope functions exhausts CBMC: it cannot see the variant of an `Rc` child).
    fn r_slice_window(off: usize) {
        let bytes: [u8; 2] = kani::any();
        let needle: u8 = kani::any();
        let r = Rope::Slice { parent: Rc::new(Rope::new(vec![bytes[0], bytes[1]])), offset: off, length: 1 };
        let inside = bytes[off];
        assert!(r.len() == 1, "slice length");
        assert!(r.byte_at(0) == Some(inside), "slice byte_at");
        assert!(r.byte_at(1).is_none(), "slice byte_at past the end");
        let want0 = if inside == needle { Some(0) } else { None };
        assert!(r.find_byte(needle, 0) == want0, "slice find_byte is confined to the window");
        assert!(r.find_byte(needle, 1).is_none(), "slice find_byte from the end");
        core::mem::forget(r);
    }

    /// Concatenation of two one-byte owned buffers, loop-free (recursion bound 3).
    fn r_concat_pair() {
        let x: u8 = kani::any();
        let y: u8 = kani::any();
        let needle: u8 = kani::any();
        let r = Rope::concat(Rc::new(Rope::new(vec![x])), Rc::new(Rope::new(vec![y])));
        assert!(r.len() == 2, "concat length");
        assert!(r.byte_at(0) == Some(x) && r.byte_at(1) == Some(y), "concat byte_at");
        assert!(r.byte_at(2).is_none(), "concat byte_at past the end");
        let want0 = if x == needle { Some(0) } else if y == needle { Some(1) } else { None };
        let want1 = if y == needle { Some(1) } else { None };
        assert!(r.find_byte(needle, 0) == want0, "concat find_byte from the start");
        assert!(r.find_byte(needle, 1) == want1, "concat find_byte from the seam");
        assert!(r.find_byte(needle, 2).is_none(), "concat find_byte from the end");
        core::mem::forget(r);
    }

    macro_rules! rope_inst {
        ($name:ident, $unwind:expr, $body:expr) => {
            #[kani::proof]
            #[kani::unwind($unwind)]
            #[kani::stub(<Rope as core::ops::Drop>::drop, noop_drop)]
            fn $name() {
                $body;
            }
        };
    }
    rope_inst!(c12_rope_concat_pair, 3, r_concat_pair());
    rope_inst!(c12_rope_slice_window__0, 3, r_slice_window(0));
    rope_inst!(c12_rope_slice_window__1, 3, r_slice_window(1));
    rope_inst!(c12_rope_slice_small__2_0_1, 5, r_slice::<2>(2, 0, 1));
    rope_inst!(c12_rope_slice_small__2_1_1, 5, r_slice::<2>(2, 1, 1));
    rope_inst!(c12_rope_slice_small__2_0_2, 5, r_slice::<2>(2, 0, 2));
    rope_inst!(c12_rope_slice_small__2_2_0, 5, r_slice::<2>(2, 2, 0));
    rope_inst!(c12_rope_slice_small__2_1_2, 5, r_slice::<2>(2, 1, 2));
    rope_inst!(c12_rope_slice_small__3_1_1, 6, r_slice::<3>(3, 1, 1));
    rope_inst!(c12_rope_slice_small__3_0_2, 6, r_slice::<3>(3, 0, 2));
    rope_inst!(c12_rope_slice__4_1_2, 8, r_slice::<4>(4, 1, 2));
    rope_inst!(c12_rope_slice__4_0_4, 8, r_slice::<4>(4, 0, 4));
    rope_inst!(c12_rope_slice__4_4_0, 8, r_slice::<4>(4, 4, 0));
    rope_inst!(c12_rope_slice__3_2_2, 8, r_slice::<4>(3, 2, 2));
    rope_inst!(c12_rope_slice__2_3_0, 8, r_slice::<4>(2, 3, 0));
    rope_inst!(c12_rope_slice__3_1_2, 8, r_slice::<4>(3, 1, 2));
    rope_inst!(c12_rope_concat__2_3_1_3, 9, r_concat(2, 3, 1, 3));
    rope_inst!(c12_rope_concat__3_3_2_2, 9, r_concat(3, 3, 2, 2));
    rope_inst!(c12_rope_concat__0_2_0_1, 9, r_concat(0, 2, 0, 1));
    rope_inst!(c12_rope_concat__1_0_0_1, 9, r_concat(1, 0, 0, 1));
    rope_inst!(c12_rope_zeroed__0, 7, r_zeroed(0));
    rope_inst!(c12_rope_zeroed__3, 7, r_zeroed(3));
    rope_inst!(c12_rope_tiled__1, 5, r_tiled(1));
    rope_inst!(c12_rope_tiled__2, 5, r_tiled(2));
    rope_inst!(c12_rope_tiled_small__2_2, 7, r_tiled_small(2, 2));
    rope_inst!(c12_rope_tiled_small__1_3, 7, r_tiled_small(1, 3));
    rope_inst!(c12_rope_tiled_small__2_1, 7, r_tiled_small(2, 1));
    rope_inst!(c12_rope_tiled_small__2_0, 7, r_tiled_small(2, 0));
}
