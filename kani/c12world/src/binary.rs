use std::rc::Rc;

pub const MAX_BINARY_SIZE: usize = 16 * 1024 * 1024;

#[derive(Debug, Clone, PartialEq)]
pub enum BinaryData {
    Flat(Vec<u8>),
    Zeros(usize),
    /// `unit` repeated `count` times (unit non-empty, count >= 2)
    Rep(Vec<u8>, usize),
}

impl BinaryData {
    pub fn new(bytes: Vec<u8>) -> Self {
        BinaryData::Flat(bytes)
    }
    pub fn zeroed(length: usize) -> Self {
        BinaryData::Zeros(length)
    }
    /// mathematical length, saturating at usize::MAX
    pub fn len(&self) -> usize {
        match self {
            BinaryData::Flat(v) => v.len(),
            BinaryData::Zeros(n) => *n,
            BinaryData::Rep(u, c) => {
                let l = (u.len() as u128) * (*c as u128);
                if l > usize::MAX as u128 { usize::MAX } else { l as usize }
            }
        }
    }
    pub fn is_empty(&self) -> bool {
        self.len() == 0
    }
    pub fn byte_at(&self, index: usize) -> Option<u8> {
        if index >= self.len() {
            return None;
        }
        match self {
            BinaryData::Flat(v) => Some(v[index]),
            BinaryData::Zeros(_) => Some(0),
            BinaryData::Rep(u, _) => Some(u[index % u.len()]),
        }
    }
    pub fn to_vec(&self) -> Vec<u8> {
        match self {
            BinaryData::Flat(v) => v.clone(),
            BinaryData::Zeros(n) => vec![0u8; *n],
            BinaryData::Rep(u, c) => {
                let mut out = Vec::new();
                let mut i = 0;
                while i < *c {
                    out.extend_from_slice(u);
                    i += 1;
                }
                out
            }
        }
    }
    pub fn concat(left: Rc<BinaryData>, right: Rc<BinaryData>) -> Self {
        let mut v = left.to_vec();
        v.extend_from_slice(&right.to_vec());
        BinaryData::Flat(v)
    }
    pub fn slice(parent: Rc<BinaryData>, offset: usize, length: usize) -> Option<Self> {
        let plen = parent.len();
        if offset > plen || offset.checked_add(length)? > plen {
            return None;
        }
        let mut v = Vec::new();
        let mut i = 0;
        while i < length {
            v.push(parent.byte_at(offset + i).unwrap());
            i += 1;
        }
        Some(BinaryData::Flat(v))
    }
    pub fn tiled(unit: Rc<BinaryData>, count: usize) -> Self {
        if count == 0 || unit.is_empty() {
            return BinaryData::Flat(Vec::new());
        }
        if count == 1 {
            return (*unit).clone();
        }
        BinaryData::Rep(unit.to_vec(), count)
    }
    pub fn iter(&self) -> BinaryIterator<'_> {
        BinaryIterator { binary: self, index: 0 }
    }
    pub fn find_byte(&self, byte: u8, offset: usize) -> Option<usize> {
        let n = self.len();
        let mut i = offset;
        while i < n {
            if self.byte_at(i) == Some(byte) {
                return Some(i);
            }
            i += 1;
        }
        None
    }
}

pub struct BinaryIterator<'a> {
    binary: &'a BinaryData,
    index: usize,
}
impl<'a> Iterator for BinaryIterator<'a> {
    type Item = u8;
    fn next(&mut self) -> Option<u8> {
        let b = self.binary.byte_at(self.index)?;
        self.index += 1;
        Some(b)
    }
    fn size_hint(&self) -> (usize, Option<usize>) {
        let r = self.binary.len().saturating_sub(self.index);
        (r, Some(r))
    }
}
impl<'a> ExactSizeIterator for BinaryIterator<'a> {}
