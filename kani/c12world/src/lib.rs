//! C12 harness world: the REAL builtin bodies (quiver-core/src/builtins/{binary,integer,vector}.rs,
//! the bigint_to_* helpers of builtins/mod.rs) and the REAL rope (quiver-core/src/binary.rs),
//! copied verbatim from /repo at check time into real/, compiled against light stand-ins for the
//! plumbing that CBMC cannot get through (Value's recursive Arc payload, num-bigint, the
//! Executor's hash maps).  Every stand-in is part of the claim and listed in the evidence.
#![allow(dead_code, unused_imports, unused_variables, clippy::all)]

/// The REAL rope (quiver-core/src/binary.rs); exercised by the rope harnesses (shallow shapes
/// built on the harness stack), which check it against the flat reference below.
#[path = "../real/binary.rs"]
pub mod real_binary;

/// Flat reference rope with the API the builtins use.  The builtin harnesses run the real builtin
/// bodies against this reference; the rope harnesses show the real rope agrees with it.
pub mod binary;

pub mod error {
    include!("../real/error_noserde.rs");
}

pub mod effects {
    pub trait Effect: Clone + core::fmt::Debug {}
}

pub mod process {
    pub type ProcessId = usize;
    #[derive(Debug, Clone)]
    pub enum Action<E> {
        Never(E),
    }
}

pub mod value {
    use num_bigint::BigInt;
    pub const MAX_BINARY_SIZE: usize = 16 * 1024 * 1024;
    pub type ResourceId = usize;

    #[derive(Debug, Clone, Copy, PartialEq)]
    pub enum Binary {
        Constant(usize),
        Heap(usize),
    }

    /// Field list of a tuple: a borrowed slice without drop glue (the harness owns the storage).
    #[derive(Debug, Clone, Copy)]
    pub struct Fields {
        pub ptr: *const Value,
        pub len: usize,
    }
    impl core::ops::Deref for Fields {
        type Target = [Value];
        fn deref(&self) -> &[Value] {
            unsafe { core::slice::from_raw_parts(self.ptr, self.len) }
        }
    }

    #[derive(Debug, Clone, Copy)]
    pub enum Value {
        Integer(BigInt),
        Binary(Binary),
        Reference(u64),
        Tuple(usize, Fields),
        Function(usize, Fields),
        Builtin(usize),
        Process(usize, usize),
        Resource(ResourceId, usize),
    }

    impl Value {
        pub fn nil() -> Self {
            Value::Tuple(0, Fields { ptr: core::ptr::NonNull::dangling().as_ptr(), len: 0 })
        }
        pub fn ok() -> Self {
            Value::Tuple(1, Fields { ptr: core::ptr::NonNull::dangling().as_ptr(), len: 0 })
        }
        pub fn is_nil(&self) -> bool {
            matches!(self, Value::Tuple(id, fields) if *id == 0 && fields.len == 0)
        }
        pub fn type_name(&self) -> &'static str {
            match self {
                Value::Integer(_) => "integer",
                Value::Binary(_) => "binary",
                Value::Reference(_) => "ref",
                Value::Tuple(_, _) => "tuple",
                Value::Function(_, _) => "function",
                Value::Builtin(_) => "builtin",
                Value::Process(_, _) => "process",
                Value::Resource(_, _) => "resource",
            }
        }
    }
}

pub mod executor {
    //! Stand-in for the Executor: a binary heap of at most 4 slots, the same size check on
    //! allocation (restated from executor.rs allocate_binary_data) and `materialize`.
    use crate::binary::BinaryData;
    use crate::error::Error;
    use crate::value::{Binary, MAX_BINARY_SIZE};
    use std::rc::Rc;

    pub struct Executor<E> {
        pub heap: [Option<BinaryData>; 4],
        pub used: usize,
        pub _e: core::marker::PhantomData<E>,
    }

    impl<E> Executor<E> {
        pub fn new() -> Self {
            Executor { heap: [None, None, None, None], used: 0, _e: core::marker::PhantomData }
        }
        pub fn get_binary_data(&self, binary: &Binary) -> Result<&BinaryData, Error> {
            match binary {
                Binary::Heap(i) if *i < self.used => match &self.heap[*i] {
                    Some(d) => Ok(d),
                    None => Err(Error::InvalidArgument(String::new())),
                },
                _ => Err(Error::InvalidArgument(String::new())),
            }
        }
        pub fn allocate_binary_data(&mut self, data: BinaryData) -> Result<Binary, Error> {
            if data.len() > MAX_BINARY_SIZE {
                return Err(Error::InvalidArgument(String::new()));
            }
            assert!(self.used < 4, "harness heap exhausted");
            let i = self.used;
            self.heap[i] = Some(data);
            self.used += 1;
            Ok(Binary::Heap(i))
        }
        pub fn allocate_binary(&mut self, bytes: Vec<u8>) -> Result<Binary, Error> {
            self.allocate_binary_data(BinaryData::new(bytes))
        }
        pub fn materialize(&mut self, binary: &Binary) -> Result<Rc<Vec<u8>>, Error> {
            Ok(Rc::new(self.get_binary_data(binary)?.to_vec()))
        }
    }
}

pub mod builtins {
    use crate::effects::Effect;
    use crate::error::Error;
    use crate::process::Action;
    use crate::value::Value;
    use num_bigint::BigInt;
    use num_traits::ToPrimitive;

    #[derive(Debug)]
    pub enum BuiltinResult<E: Effect> {
        Value(Value),
        Action(Action<E>),
    }

    // bigint_to_i64 / bigint_to_usize / bigint_to_u8, extracted verbatim from builtins/mod.rs
    include!("../real/narrowing_helpers.rs");

    #[path = "../../real/builtins_binary.rs"]
    pub mod binary;
    #[path = "../../real/builtins_integer.rs"]
    pub mod integer;
    #[path = "../../real/builtins_vector.rs"]
    pub mod vector;
}

#[cfg(kani)]
mod harness;
