use num_bigint::BigInt;
pub trait Integer {
    fn gcd(&self, other: &Self) -> Self;
}
impl Integer for BigInt {
    fn gcd(&self, _other: &Self) -> Self {
        // not exercised by the harnesses
        BigInt(0)
    }
}
