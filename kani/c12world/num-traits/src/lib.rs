use num_bigint::BigInt;
pub trait ToPrimitive {
    fn to_i64(&self) -> Option<i64>;
    fn to_u64(&self) -> Option<u64>;
    fn to_usize(&self) -> Option<usize>;
    fn to_u8(&self) -> Option<u8>;
    fn to_f64(&self) -> Option<f64>;
}
impl ToPrimitive for BigInt {
    fn to_i64(&self) -> Option<i64> { BigInt::to_i64(self) }
    fn to_u64(&self) -> Option<u64> { BigInt::to_u64(self) }
    fn to_usize(&self) -> Option<usize> { BigInt::to_usize(self) }
    fn to_u8(&self) -> Option<u8> { BigInt::to_u8(self) }
    fn to_f64(&self) -> Option<f64> { BigInt::to_f64(self) }
}
pub trait Zero {
    fn zero() -> Self;
    fn is_zero(&self) -> bool;
}
impl Zero for BigInt {
    fn zero() -> Self { BigInt(0) }
    fn is_zero(&self) -> bool { self.0 == 0 }
}
pub trait Signed {
    fn abs(&self) -> Self;
    fn is_negative(&self) -> bool;
}
impl Signed for BigInt {
    fn abs(&self) -> Self { BigInt::abs(self) }
    fn is_negative(&self) -> bool { self.0 < 0 }
}
