    /// C13: refs minted by (worker w1, counter c1) and (w2, c2) are equal iff same minting.
    #[kani::proof]
    #[kani::stub(std::hash::RandomState::new, stub_random_state)]
    fn c13_ref_injective() {
        let w1: u16 = kani::any();
        let w2: u16 = kani::any();
        let c1: u64 = kani::any();
        let c2: u64 = kani::any();
        kani::assume(c1 < (1u64 << 48) && c2 < (1u64 << 48));
        let mut e1 = fresh(w1);
        let mut e2 = fresh(w2);
        e1.next_ref = c1;
        e2.next_ref = c2;
        let v1 = e1.create_ref();
        let v2 = e2.create_ref();
        let r1 = ref_bits(&v1);
        let r2 = ref_bits(&v2);
        assert!((r1 == r2) == (w1 == w2 && c1 == c2));
        // strictly monotone counter: the next minting on the same worker differs
        assert!(e1.next_ref == c1 + 1);
        kani::cover!(r1 == r2, "equal refs reachable (same minting)");
        kani::cover!(r1 != r2, "distinct refs reachable");
        std::mem::forget(v1);
        std::mem::forget(v2);
        std::mem::forget(e1);
        std::mem::forget(e2);
    }

    /// C13: two consecutive mintings on one worker are distinct and ordered, for every start.
    #[kani::proof]
    #[kani::stub(std::hash::RandomState::new, stub_random_state)]
    fn c13_ref_consecutive_distinct() {
        let w: u16 = kani::any();
        let c: u64 = kani::any();
        kani::assume(c < (1u64 << 48) - 1);
        let mut e = fresh(w);
        e.next_ref = c;
        let v1 = e.create_ref();
        let v2 = e.create_ref();
        let r1 = ref_bits(&v1);
        let r2 = ref_bits(&v2);
        assert!(r1 != r2);
        assert!(e.next_ref == c + 2);
        std::mem::forget(v1);
        std::mem::forget(v2);
        std::mem::forget(e);
    }

