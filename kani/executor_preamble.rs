
// ===== appended by /verif (scratch copy only; never committed to /repo) =====
#[cfg(kani)]
mod verif_kani {
    use super::*;
    use crate::builtins::BuiltinRegistry;

    #[derive(Debug, Clone, serde::Serialize, serde::Deserialize)]
    struct NoEffect;
    impl Effect for NoEffect {
        fn resource_id(&self) -> Option<crate::value::ResourceId> {
            None
        }
    }

    // std::hash::RandomState::new reads OS randomness (a syscall CBMC cannot model)
    fn stub_random_state() -> std::hash::RandomState {
        unsafe { std::mem::transmute((0u64, 0u64)) }
    }

    fn fresh(worker: u16) -> Executor<NoEffect> {
        Executor::new(BuiltinRegistry::new(), false, worker)
    }

    fn ref_bits(v: &Value) -> u64 {
        match v {
            Value::Reference(r) => *r,
            _ => {
                assert!(false, "create_ref must return a Reference");
                0
            }
        }
    }

