
// ===== appended by /verif (scratch copy only; never committed to /repo) =====
#[cfg(kani)]
mod verif_kani {
    use super::*;
    use crate::builtins::BuiltinRegistry;

    #[derive(Debug, Clone, serde::Serialize, serde::Deserialize)]
    struct NoEffect;
    impl Effect for NoEffect {
        fn resource_id(&self) -> Option<crate::value::ResourceId> {
            None
        }
    }

    // std::hash::RandomState::new reads OS randomness (a syscall CBMC cannot model)
    fn stub_random_state() -> std::hash::RandomState {
        unsafe { std::mem::transmute((0u64, 0u64)) }
    }

    fn fresh(worker: u16) -> Executor<NoEffect> {
        Executor::new(BuiltinRegistry::new(), false, worker)
    }

    fn ref_bits(v: &Value) -> u64 {
        match v {
            Value::Reference(r) => *r,
            _ => {
                assert!(false, "create_ref must return a Reference");
                0
            }
        }
    }

    /// C13: refs minted by (worker w1, counter c1) and (w2, c2) are equal iff same minting.
    #[kani::proof]
    #[kani::stub(std::hash::RandomState::new, stub_random_state)]
    fn c13_ref_injective() {
        let w1: u16 = kani::any();
        let w2: u16 = kani::any();
        let c1: u64 = kani::any();
        let c2: u64 = kani::any();
        kani::assume(c1 < (1u64 << 48) && c2 < (1u64 << 48));
        let mut e1 = fresh(w1);
        let mut e2 = fresh(w2);
        e1.next_ref = c1;
        e2.next_ref = c2;
        let v1 = e1.create_ref();
        let v2 = e2.create_ref();
        let r1 = ref_bits(&v1);
        let r2 = ref_bits(&v2);
        assert!((r1 == r2) == (w1 == w2 && c1 == c2));
        // strictly monotone counter: the next minting on the same worker differs
        assert!(e1.next_ref == c1 + 1);
        kani::cover!(r1 == r2, "equal refs reachable (same minting)");
        kani::cover!(r1 != r2, "distinct refs reachable");
        std::mem::forget(v1);
        std::mem::forget(v2);
        std::mem::forget(e1);
        std::mem::forget(e2);
    }

    /// C13: two consecutive mintings on one worker are distinct and ordered, for every start.
    #[kani::proof]
    #[kani::stub(std::hash::RandomState::new, stub_random_state)]
    fn c13_ref_consecutive_distinct() {
        let w: u16 = kani::any();
        let c: u64 = kani::any();
        kani::assume(c < (1u64 << 48) - 1);
        let mut e = fresh(w);
        e.next_ref = c;
        let v1 = e.create_ref();
        let v2 = e.create_ref();
        let r1 = ref_bits(&v1);
        let r2 = ref_bits(&v2);
        assert!(r1 != r2);
        assert!(e.next_ref == c + 2);
        std::mem::forget(v1);
        std::mem::forget(v2);
        std::mem::forget(e);
    }

    /// C05 (timeout clause): handle_select_timeout fires iff the elapsed time has reached the
    /// (non-negative part of the) duration — never earlier; a negative timeout fires at once.
    #[kani::proof]
    #[kani::stub(std::hash::RandomState::new, stub_random_state)]
    fn c05_timeout_rule() {
        let timeout: i64 = kani::any();
        let start: u64 = kani::any();
        let now: u64 = kani::any();
        let mut e = fresh(0);
        let r = e.handle_select_timeout(timeout, start, now);
        let fired = match &r {
            Ok(Some(v)) => {
                assert!(v.is_nil(), "a timeout yields nil");
                true
            }
            Ok(None) => false,
            Err(_) => {
                assert!(false, "handle_select_timeout never errors");
                false
            }
        };
        let dur: u64 = if timeout < 0 { 0 } else { timeout as u64 };
        let elapsed: u64 = if now >= start { now - start } else { 0 };
        assert!(fired == (elapsed >= dur));
        // "no earlier than its duration after the select started waiting"
        if fired && timeout > 0 {
            assert!(now >= start && now - start >= timeout as u64);
        }
        if timeout <= 0 {
            assert!(fired);
        }
        kani::cover!(fired && timeout > 0, "positive timeout fires");
        kani::cover!(!fired, "timeout not yet due");
        std::mem::forget(r);
        std::mem::forget(e);
    }
}
