//! C06 harness world: the REAL slot-accounting kernel of quiver-core/src/executor.rs
//! (allocate_binary_data, process_pending_free, retain, release — extracted verbatim from /repo at
//! check time into real/slot_kernel.rs) compiled against stand-ins: Value with borrowed field
//! slices, a BinaryData that is just a length.  One inductive step from an arbitrary valid
//! pre-state covers call histories of any length for this kernel.
#![allow(dead_code, unused_imports, unused_variables, clippy::all)]

pub const MAX_BINARY_SIZE: usize = 16 * 1024 * 1024;

#[derive(Debug, Clone, Copy, PartialEq)]
pub enum Binary {
    Constant(usize),
    Heap(usize),
}

#[derive(Debug, Clone, Copy)]
pub struct Fields {
    pub ptr: *const Value,
    pub len: usize,
}
impl Fields {
    pub fn iter(&self) -> core::slice::Iter<'_, Value> {
        unsafe { core::slice::from_raw_parts(self.ptr, self.len) }.iter()
    }
}

#[derive(Debug, Clone, Copy)]
pub enum Value {
    Integer(i64),
    Binary(Binary),
    Reference(u64),
    Tuple(usize, Fields),
    Function(usize, Fields),
    Builtin(usize),
    Process(usize, usize),
    Resource(usize, usize),
}

/// stand-in for the rope: only its length matters to the kernel
#[derive(Debug, Clone, PartialEq)]
pub struct BinaryData {
    pub length: usize,
}
impl BinaryData {
    pub fn new(bytes: Vec<u8>) -> Self {
        BinaryData { length: bytes.len() }
    }
    pub fn len(&self) -> usize {
        self.length
    }
}

#[derive(Debug, Clone, PartialEq)]
pub enum Error {
    InvalidArgument(String),
}

pub struct Executor {
    pub heap: Vec<BinaryData>,
    pub refcounts: Vec<u32>,
    pub free: Vec<usize>,
    pub pending_free: Vec<usize>,
    pub freed: Vec<bool>,
    pub reclaimed: usize,
}

// `impl Executor { <the four real functions> }`, generated from /repo at check time
include!("../real/slot_kernel.rs");

#[cfg(kani)]
mod harness;
