//! One inductive step of the slot kernel from an arbitrary pre-state satisfying the representation
//! invariant I, over N = 3 slots:
//!   (a) freed[i] ⇒ refcounts[i] == 0
//!   (b) `free` has no duplicates, only valid indices, and i ∈ free ⇔ freed[i]
//!   (c) `pending_free` holds valid indices (duplicates and stale entries allowed)
//! and the parallel vectors have equal length.
use crate::*;

const N: usize = 3;

pub fn fmt_stub(_args: core::fmt::Arguments<'_>) -> String {
    String::new()
}

fn contains(v: &Vec<usize>, x: usize) -> bool {
    let mut i = 0;
    while i < v.len() {
        if v[i] == x {
            return true;
        }
        i += 1;
    }
    false
}

fn count(v: &Vec<usize>, x: usize) -> usize {
    let mut c = 0;
    let mut i = 0;
    while i < v.len() {
        if v[i] == x {
            c += 1;
        }
        i += 1;
    }
    c
}

fn invariant(e: &Executor) -> bool {
    let n = e.heap.len();
    if e.refcounts.len() != n || e.freed.len() != n {
        return false;
    }
    let mut i = 0;
    while i < n {
        if e.freed[i] && e.refcounts[i] != 0 {
            return false;
        }
        let c = count(&e.free, i);
        if c > 1 || (c == 1) != e.freed[i] {
            return false;
        }
        i += 1;
    }
    let mut k = 0;
    while k < e.free.len() {
        if e.free[k] >= n {
            return false;
        }
        k += 1;
    }
    let mut p = 0;
    while p < e.pending_free.len() {
        if e.pending_free[p] >= n {
            return false;
        }
        p += 1;
    }
    true
}

/// arbitrary pre-state over N slots with `np` pending entries (np concrete per instance)
fn any_state(np: usize) -> Executor {
    let mut heap = Vec::new();
    let mut refcounts = Vec::new();
    let mut freed = Vec::new();
    let mut free = Vec::new();
    let order: [usize; N] = [kani::any(), kani::any(), kani::any()];
    let mut i = 0;
    while i < N {
        heap.push(BinaryData { length: kani::any() });
        let f: bool = kani::any();
        let rc: u32 = kani::any();
        kani::assume(!f || rc == 0);
        refcounts.push(rc);
        freed.push(f);
        i += 1;
    }
    // `free` = the freed slots in an arbitrary order
    kani::assume(order[0] < N && order[1] < N && order[2] < N);
    kani::assume(order[0] != order[1] && order[0] != order[2] && order[1] != order[2]);
    let mut k = 0;
    while k < N {
        if freed[order[k]] {
            free.push(order[k]);
        }
        k += 1;
    }
    let mut pending_free = Vec::new();
    let mut p = 0;
    while p < np {
        let x: usize = kani::any();
        kani::assume(x < N);
        pending_free.push(x);
        p += 1;
    }
    Executor { heap, refcounts, free, pending_free, freed, reclaimed: 0 }
}

fn snapshot(e: &Executor) -> ([u32; N], [bool; N]) {
    ([e.refcounts[0], e.refcounts[1], e.refcounts[2]], [e.freed[0], e.freed[1], e.freed[2]])
}

fn h_allocate(np: usize) {
    let mut e = any_state(np);
    assert!(invariant(&e));
    let (rc0, fr0) = snapshot(&e);
    let len: usize = kani::any();
    let r = e.allocate_binary_data(BinaryData { length: len });
    match r {
        Ok(Binary::Heap(idx)) => {
            assert!(len <= MAX_BINARY_SIZE, "size limit enforced");
            assert!(idx < e.heap.len());
            assert!(e.refcounts[idx] == 0 && !e.freed[idx], "a fresh slot floats at count 0");
            assert!(!contains(&e.free, idx), "the slot handed out leaves the reuse pool");
            if idx < N {
                assert!(fr0[idx], "only a reclaimed slot is reused");
                assert!(rc0[idx] == 0, "a slot with a positive count is never handed out");
            }
            assert!(e.heap[idx].length == len);
            // nothing else changes
            let mut i = 0;
            while i < N {
                if i != idx {
                    assert!(e.refcounts[i] == rc0[i] && e.freed[i] == fr0[i]);
                }
                i += 1;
            }
            assert!(invariant(&e), "allocate preserves the invariant");
            kani::cover!(idx < N, "reuse of a reclaimed slot");
            kani::cover!(idx == N, "growth of the heap");
        }
        Ok(_) => assert!(false, "allocate returns a heap binary"),
        Err(_) => {
            assert!(len > MAX_BINARY_SIZE, "error only over the size limit");
            assert!(invariant(&e));
        }
    }
    core::mem::forget(e);
}

fn h_retain_release(np: usize, deep: bool) {
    let mut e = any_state(np);
    assert!(invariant(&e));
    let (rc0, fr0) = snapshot(&e);
    let i: usize = kani::any();
    kani::assume(i < N);
    // callers only retain/release slots that are live (debug assertions in the real code)
    kani::assume(!fr0[i]);
    let v = Value::Binary(Binary::Heap(i));
    let inner = [v, Value::Integer(7)];
    let nested = Value::Tuple(5, Fields { ptr: inner.as_ptr(), len: 2 });
    let target = if deep { nested } else { v };
    let do_release: bool = kani::any();
    if do_release {
        kani::assume(rc0[i] > 0);
        let pend0 = e.pending_free.len();
        e.release(&target);
        assert!(e.refcounts[i] == rc0[i] - 1, "release decrements exactly once");
        if e.refcounts[i] == 0 {
            assert!(contains(&e.pending_free, i), "a count reaching 0 is queued for reclamation");
        } else {
            assert!(e.pending_free.len() == pend0, "nothing is queued while references remain");
        }
        assert!(!e.freed[i], "release never frees immediately");
    } else {
        kani::assume(rc0[i] < u32::MAX);
        e.retain(&target);
        assert!(e.refcounts[i] == rc0[i] + 1, "retain increments exactly once");
    }
    let mut k = 0;
    while k < N {
        if k != i {
            assert!(e.refcounts[k] == rc0[k]);
        }
        assert!(e.freed[k] == fr0[k]);
        k += 1;
    }
    assert!(invariant(&e), "retain/release preserve the invariant");
    core::mem::forget(e);
}

fn h_process_pending(np: usize) {
    let mut e = any_state(np);
    assert!(invariant(&e));
    let (rc0, fr0) = snapshot(&e);
    let mut queued = [false; N];
    let mut p = 0;
    while p < e.pending_free.len() {
        queued[e.pending_free[p]] = true;
        p += 1;
    }
    e.process_pending_free();
    assert!(e.pending_free.is_empty(), "the queue is drained");
    let mut i = 0;
    while i < N {
        assert!(e.refcounts[i] == rc0[i], "counts are untouched");
        let should_be_freed = fr0[i] || (queued[i] && rc0[i] == 0);
        assert!(e.freed[i] == should_be_freed, "exactly the queued slots still at 0 are reclaimed");
        if rc0[i] > 0 {
            assert!(!e.freed[i], "a referenced slot is never reclaimed (no premature free)");
        }
        i += 1;
    }
    assert!(invariant(&e), "reclamation preserves the invariant (no double free)");
    kani::cover!(np > 0 && e.freed[0] && !fr0[0], "a slot is reclaimed");
    core::mem::forget(e);
}

// harness instances (plain functions: Kani's in-place playback cannot insert into a macro)

#[kani::proof]
#[kani::unwind(6)]
#[kani::stub(alloc::fmt::format, fmt_stub)]
fn c06_allocate__0() {
    h_allocate(0);
}

#[kani::proof]
#[kani::unwind(6)]
#[kani::stub(alloc::fmt::format, fmt_stub)]
fn c06_allocate__2() {
    h_allocate(2);
}

#[kani::proof]
#[kani::unwind(6)]
#[kani::stub(alloc::fmt::format, fmt_stub)]
fn c06_retain_release__0_flat() {
    h_retain_release(0, false);
}

#[kani::proof]
#[kani::unwind(6)]
#[kani::stub(alloc::fmt::format, fmt_stub)]
fn c06_retain_release__2_flat() {
    h_retain_release(2, false);
}

#[kani::proof]
#[kani::unwind(6)]
#[kani::stub(alloc::fmt::format, fmt_stub)]
fn c06_retain_release__1_nested() {
    h_retain_release(1, true);
}

#[kani::proof]
#[kani::unwind(6)]
#[kani::stub(alloc::fmt::format, fmt_stub)]
fn c06_process_pending__0() {
    h_process_pending(0);
}

#[kani::proof]
#[kani::unwind(6)]
#[kani::stub(alloc::fmt::format, fmt_stub)]
fn c06_process_pending__1() {
    h_process_pending(1);
}

#[kani::proof]
#[kani::unwind(7)]
#[kani::stub(alloc::fmt::format, fmt_stub)]
fn c06_process_pending__3() {
    h_process_pending(3);
}

#[kani::proof]
#[kani::unwind(7)]
#[kani::stub(alloc::fmt::format, fmt_stub)]
fn c06_process_pending__2() {
    h_process_pending(2);
}
