    /// C05 (timeout clause): handle_select_timeout fires iff the elapsed time has reached the
    /// (non-negative part of the) duration — never earlier; a negative timeout fires at once.
    #[kani::proof]
    #[kani::stub(std::hash::RandomState::new, stub_random_state)]
    fn c05_timeout_rule() {
        let timeout: i64 = kani::any();
        let start: u64 = kani::any();
        let now: u64 = kani::any();
        let mut e = fresh(0);
        let r = e.handle_select_timeout(timeout, start, now);
        let fired = match &r {
            Ok(Some(v)) => {
                assert!(v.is_nil(), "a timeout yields nil");
                true
            }
            Ok(None) => false,
            Err(_) => {
                assert!(false, "handle_select_timeout never errors");
                false
            }
        };
        let dur: u64 = if timeout < 0 { 0 } else { timeout as u64 };
        let elapsed: u64 = if now >= start { now - start } else { 0 };
        assert!(fired == (elapsed >= dur));
        // "no earlier than its duration after the select started waiting"
        if fired && timeout > 0 {
            assert!(now >= start && now - start >= timeout as u64);
        }
        if timeout <= 0 {
            assert!(fired);
        }
        kani::cover!(fired && timeout > 0, "positive timeout fires");
        kani::cover!(!fired, "timeout not yet due");
        std::mem::forget(r);
        std::mem::forget(e);
    }
