#!/bin/bash
# Build the framework from files on disk only (offline).  The helper is rebuilt by every check
# anyway (cargo fingerprints /repo's sources); this just warms the build.
set -e
cd "$(dirname "$0")"
export CARGO_NET_OFFLINE=true RUSTUP_TOOLCHAIN=1.96.0 CARGO_TARGET_DIR="$PWD/.build/qvdump" RUSTFLAGS="--cfg quiver_verif"
mkdir -p .build evidence replays
cp /repo/Cargo.lock tools/qvdump/Cargo.lock 2>/dev/null || true
(cd tools/qvdump && cargo build --offline 2>&1 | tail -3)
python3-vt -c "import z3; print('z3', z3.get_version_string())"
