//! qvdump — drives the *real* joefreeman/quiver code (parser, compiler, tree-shaker, environment
//! merge, compatibility tables, executor, builtins) and dumps what it produced as JSON, so that the
//! solver-based checks in /verif work on artefacts regenerated from /repo's current tree.
//!
//! Protocol: `qvdump serve` reads one JSON request per line on stdin and writes one JSON response
//! per line on stdout.  Compiled programs are kept in memory and addressed by handle.
use num_bigint::BigInt;
use quiver_compiler::compiler::ModuleCache;
use quiver_compiler::{Compiler, PackageResolver, parse};
use quiver_core::builtins::{BuiltinRegistry, BuiltinResult};
use quiver_core::bytecode::{Bytecode, ConcreteType, Constant, Function};
use quiver_core::compatibility::{
    CompatibilityInput, compute_canonical_tuples, compute_param_compatibility,
    compute_type_compatibility,
};
use quiver_core::effects::Effect;
use quiver_core::executor::{Executor, ProgramUpdate};
use quiver_core::program::Program;
use quiver_core::types::Type;
use quiver_core::value::{Binary, ResourceId, Value};
use serde::{Deserialize, Serialize};
use serde_json::{Value as J, json};
use std::collections::{HashMap, HashSet};
use std::io::{BufRead, Write};
use std::sync::Arc;

#[derive(Debug, Clone, Serialize, Deserialize)]
struct NoEffect;
impl Effect for NoEffect {
    fn resource_id(&self) -> Option<ResourceId> {
        None
    }
}

type Reg = BuiltinRegistry<NoEffect>;

fn registry() -> Reg {
    BuiltinRegistry::<NoEffect>::with_modules(&quiver_core::builtins::core_modules())
}

struct Loaded {
    bytecode: Bytecode,
}

struct State {
    progs: Vec<Loaded>,
}

// ---------------------------------------------------------------------------------------------
// value <-> json

fn value_to_json(v: &Value, ex: Option<&Executor<NoEffect>>, consts: &[Constant]) -> J {
    match v {
        Value::Integer(n) => json!({"t":"int","v": n.to_string()}),
        Value::Binary(b) => {
            let bytes: Option<Vec<u8>> = match b {
                Binary::Constant(i) => match consts.get(*i) {
                    Some(Constant::Binary(bs)) => Some(bs.clone()),
                    _ => None,
                },
                // read through len()/byte_at() rather than to_vec(): a rope whose length arithmetic
                // wrapped must not make the helper loop or allocate without bound
                Binary::Heap(i) => ex.and_then(|e| e.get_heap_binary(*i)).and_then(|d| {
                    let n = d.len();
                    if n > 64 * 1024 * 1024 {
                        None
                    } else if let quiver_core::BinaryData::Owned(rc) = d {
                        Some((**rc).clone())
                    } else {
                        let mut out = Vec::with_capacity(n);
                        for k in 0..n {
                            out.push(d.byte_at(k).unwrap_or(0));
                        }
                        Some(out)
                    }
                }),
            };
            match bytes {
                Some(bs) => json!({"t":"bin","v": bs}),
                None => json!({"t":"bin","v": J::Null}),
            }
        }
        Value::Reference(r) => json!({"t":"ref","v": r}),
        Value::Tuple(id, fs) => {
            json!({"t":"tuple","id": id, "v": fs.iter().map(|f| value_to_json(f, ex, consts)).collect::<Vec<_>>()})
        }
        Value::Function(id, caps) => {
            json!({"t":"fn","id": id, "v": caps.iter().map(|f| value_to_json(f, ex, consts)).collect::<Vec<_>>()})
        }
        Value::Builtin(id) => json!({"t":"builtin","id": id}),
        Value::Process(p, f) => json!({"t":"proc","pid": p, "f": f}),
        Value::Resource(r, t) => json!({"t":"res","rid": r, "rt": t}),
    }
}

/// JSON -> Value; binaries become `Binary::Heap(k)` indices into `heap` (the format
/// `spawn_process` expects).
fn json_to_value(j: &J, heap: &mut Vec<Vec<u8>>) -> Result<Value, String> {
    let t = j.get("t").and_then(|t| t.as_str()).ok_or("value without t")?;
    match t {
        "int" => {
            let s = j.get("v").and_then(|v| v.as_str()).ok_or("int without v")?;
            let n: BigInt = s.parse().map_err(|_| format!("bad int {s}"))?;
            Ok(Value::Integer(n))
        }
        "bin" => {
            let arr = j.get("v").and_then(|v| v.as_array()).ok_or("bin without v")?;
            let bytes: Vec<u8> = arr.iter().map(|b| b.as_u64().unwrap_or(0) as u8).collect();
            heap.push(bytes);
            Ok(Value::Binary(Binary::Heap(heap.len() - 1)))
        }
        "ref" => Ok(Value::Reference(j.get("v").and_then(|v| v.as_u64()).ok_or("ref")?)),
        "tuple" | "fn" => {
            let id = j.get("id").and_then(|v| v.as_u64()).ok_or("id")? as usize;
            let arr = j.get("v").and_then(|v| v.as_array()).ok_or("fields")?;
            let mut fs = Vec::new();
            for f in arr {
                fs.push(json_to_value(f, heap)?);
            }
            if t == "tuple" {
                Ok(Value::Tuple(id, Arc::new(fs)))
            } else {
                Ok(Value::Function(id, Arc::new(fs)))
            }
        }
        "builtin" => Ok(Value::Builtin(
            j.get("id").and_then(|v| v.as_u64()).ok_or("id")? as usize
        )),
        "proc" => Ok(Value::Process(
            j.get("pid").and_then(|v| v.as_u64()).ok_or("pid")? as usize,
            j.get("f").and_then(|v| v.as_u64()).ok_or("f")? as usize,
        )),
        other => Err(format!("unsupported value kind {other}")),
    }
}

fn ct_to_json(c: &ConcreteType) -> J {
    match c {
        ConcreteType::Integer => json!(["int"]),
        ConcreteType::Binary => json!(["bin"]),
        ConcreteType::Reference => json!(["ref"]),
        ConcreteType::Tuple(i) => json!(["tuple", i]),
        ConcreteType::Function(i) => json!(["fn", i]),
        ConcreteType::Builtin(i) => json!(["builtin", i]),
        ConcreteType::Process(i) => json!(["proc", i]),
        ConcreteType::Resource(i) => json!(["res", i]),
    }
}

fn sets_to_json(sets: &[HashSet<ConcreteType>]) -> J {
    J::Array(
        sets.iter()
            .map(|s| {
                let mut v: Vec<String> = s.iter().map(|c| ct_to_json(c).to_string()).collect();
                v.sort();
                J::Array(
                    v.into_iter()
                        .map(|s| serde_json::from_str::<J>(&s).unwrap())
                        .collect(),
                )
            })
            .collect(),
    )
}

fn error_json(e: &quiver_core::error::Error) -> J {
    let kind = format!("{:?}", e);
    let kind_name = kind
        .split(|c: char| !(c.is_alphanumeric() || c == '_'))
        .next()
        .unwrap_or("")
        .to_string();
    json!({"kind": kind_name, "debug": kind})
}

// ---------------------------------------------------------------------------------------------
// compile

fn read_std(std_dir: &str) -> HashMap<Vec<String>, String> {
    fn walk(dir: &std::path::Path, prefix: &mut Vec<String>, out: &mut HashMap<Vec<String>, String>) {
        let Ok(rd) = std::fs::read_dir(dir) else { return };
        for ent in rd.flatten() {
            let p = ent.path();
            let name = ent.file_name().to_string_lossy().to_string();
            if p.is_dir() {
                prefix.push(name);
                walk(&p, prefix, out);
                prefix.pop();
            } else if let Some(stem) = name.strip_suffix(".qv") {
                if let Ok(src) = std::fs::read_to_string(&p) {
                    let mut key = prefix.clone();
                    key.push(stem.to_string());
                    out.insert(key, src);
                }
            }
        }
    }
    let mut out = HashMap::new();
    walk(std::path::Path::new(std_dir), &mut Vec::new(), &mut out);
    out
}

struct CompileOut {
    bytecode: Bytecode,
    result_type: usize,
    receive_type: usize,
}

fn compile_source(
    source: &str,
    std_dir: Option<&str>,
    extra: &HashMap<Vec<String>, String>,
) -> Result<CompileOut, J> {
    let ast = parse(source).map_err(|e| json!({"stage":"parse","error": format!("{:?}", e)}))?;
    // The standard library is embedded in quiver-compiler with include_dir!, which cargo does not
    // track; read std/*.qv from disk and shadow the embedded copy so edits are always seen.
    let mut modules = match std_dir {
        Some(d) => read_std(d),
        None => HashMap::new(),
    };
    for (k, v) in extra {
        modules.insert(k.clone(), v.clone());
    }
    let resolver = PackageResolver::memory(modules);
    let builtins = registry();
    let mut program = Program::new();
    let mut cache = ModuleCache::new();
    let compiled = Compiler::compile(
        ast,
        &HashMap::new(),
        &mut cache,
        &resolver,
        &mut program,
        quiver_core::types::NIL,
        &HashMap::new(),
        &builtins,
        None,
    )
    .map_err(|e| json!({"stage":"compile","error": format!("{:?}", e.error)}))?;
    let nil_type_id = program.register_type(Type::nil());
    let callable = program.register_type(Type::Callable {
        parameter: nil_type_id,
        result: compiled.result_type,
        receive: compiled.receive_type,
    });
    let fidx = program.register_function(Function {
        instructions: compiled.instructions,
        captures: 0,
        type_id: callable,
    });
    Ok(CompileOut {
        bytecode: program.to_bytecode(Some(fidx)),
        result_type: compiled.result_type,
        receive_type: compiled.receive_type,
    })
}

/// JSON of a bytecode for the Python side.  Everything goes through the repository's own serde
/// form except the binary constants, which are written out byte by byte from memory: the
/// symbolic executor must see the bytes the executor sees, whatever the serialised form does.
fn bytecode_json(bc: &Bytecode) -> J {
    let mut j = serde_json::to_value(bc).unwrap();
    let consts: Vec<J> = bc
        .constants
        .iter()
        .map(|c| match c {
            Constant::Binary(b) => json!({"bin": b}),
            other => serde_json::to_value(other).unwrap(),
        })
        .collect();
    if let Some(o) = j.as_object_mut() {
        o.insert("constants".to_string(), J::Array(consts));
    }
    j
}

/// In-memory equality of two bytecodes, table by table (not of their serialised forms).
fn bytecode_same(a: &Bytecode, b: &Bytecode) -> bool {
    a.constants == b.constants
        && a.functions == b.functions
        && a.tuples == b.tuples
        && a.types == b.types
        && a.builtins == b.builtins
        && a.entry == b.entry
        && a.resources == b.resources
}

fn compat_json(bc: &Bytecode) -> J {
    let input = CompatibilityInput {
        types: &bc.types,
        tuples: &bc.tuples,
        functions: &bc.functions,
        builtins: &bc.builtins,
        resource_names: &bc.resources,
    };
    let tc = compute_type_compatibility(&input);
    let canon = compute_canonical_tuples(&bc.tuples);
    let (fp, bp) = compute_param_compatibility(&input);
    json!({
        "type_compatibility": sets_to_json(&tc),
        "canonical_tuples": canon,
        "function_param_compatibility": sets_to_json(&fp),
        "builtin_param_compatibility": sets_to_json(&bp),
    })
}

// ---------------------------------------------------------------------------------------------
// execution on the real executor

fn fresh_executor(bc: &Bytecode, profile: bool) -> Executor<NoEffect> {
    let reg = registry();
    let mut ex = Executor::new(reg, profile, 0);
    let input = CompatibilityInput {
        types: &bc.types,
        tuples: &bc.tuples,
        functions: &bc.functions,
        builtins: &bc.builtins,
        resource_names: &bc.resources,
    };
    let type_compatibility = compute_type_compatibility(&input);
    let canonical_tuples = compute_canonical_tuples(&bc.tuples);
    let (fp, bp) = compute_param_compatibility(&input);
    ex.update_program(ProgramUpdate {
        constants: bc.constants.clone(),
        functions: bc.functions.clone(),
        tuples: bc.tuples[2..].to_vec(),
        types: bc.types.clone(),
        builtins: bc.builtins.clone(),
        resources: bc.resources.clone(),
        type_compatibility,
        function_param_compatibility: fp,
        builtin_param_compatibility: bp,
        canonical_tuples,
    });
    ex
}

struct RunOut {
    result: J,
    steps: u64,
    trace: Vec<J>,
    peaks: J,
    heap_slots: usize,
    refcount_check: Option<String>,
}

fn run_process(
    bc: &Bytecode,
    func: usize,
    captures: Vec<Value>,
    arg: Value,
    heap: Vec<Vec<u8>>,
    max_steps: u64,
    trace: bool,
    profile: bool,
) -> RunOut {
    let mut ex = fresh_executor(bc, profile);
    let mut tr = Vec::new();
    if let Err(e) = ex.spawn_process(0, Some(func), captures, arg, heap, false) {
        return RunOut {
            result: json!({"error": error_json(&e)}),
            steps: 0,
            trace: tr,
            peaks: J::Null,
            heap_slots: 0,
            refcount_check: None,
        };
    }
    let mut steps = 0u64;
    let unit = if trace { 1 } else { 1000 };
    let result;
    loop {
        if trace {
            if let Some(p) = ex.get_process(0) {
                let frames: Vec<J> = p
                    .frames
                    .iter()
                    .map(|f| json!([f.function_index, f.counter]))
                    .collect();
                tr.push(json!({"frames": frames, "stack": p.stack.len(), "locals": p.locals.len()}));
            }
        }
        let (did, action) = ex.step(unit, 0);
        steps += unit as u64;
        let Some(p) = ex.get_process(0) else {
            result = json!({"error": {"kind":"ProcessDisappeared","debug":""}});
            break;
        };
        if let Some(r) = &p.result {
            result = match r {
                Ok(v) => json!({"value": value_to_json(v, Some(&ex), &bc.constants)}),
                Err(e) => json!({"error": error_json(e)}),
            };
            break;
        }
        if action.is_some() {
            result = json!({"unsupported": "action (spawn/send/await/effect) outside the sequential fragment"});
            break;
        }
        if !did {
            result = json!({"unsupported": "blocked (select) outside the sequential fragment"});
            break;
        }
        if steps >= max_steps {
            result = json!({"timeout": steps});
            break;
        }
    }
    let peaks = json!({
        "stack": ex.stats.peak_stack_size,
        "locals": ex.stats.peak_locals_size,
        "frames": ex.stats.peak_frame_count,
    });
    let rc = ex.check_refcounts().err();
    let slots = ex.heap_stats().slots;
    RunOut {
        result,
        steps,
        trace: tr,
        peaks,
        heap_slots: slots,
        refcount_check: rc,
    }
}

fn runout_json(r: RunOut) -> J {
    json!({"ok": true, "result": r.result, "steps": r.steps, "trace": r.trace, "peaks": r.peaks,
           "heap_slots": r.heap_slots, "refcount_error": r.refcount_check})
}

// ---------------------------------------------------------------------------------------------
// environment merge through the real Environment (dummy workers that swallow commands)

struct NullWorker {
    updates: Arc<std::sync::Mutex<Vec<ProgramUpdate>>>,
    starts: Arc<std::sync::Mutex<Vec<Option<usize>>>>,
}
impl quiver_environment::WorkerHandle<NoEffect> for NullWorker {
    fn send(
        &mut self,
        command: quiver_environment::Command<NoEffect>,
    ) -> Result<(), quiver_environment::EnvironmentError> {
        match command {
            quiver_environment::Command::UpdateProgram(u) => self.updates.lock().unwrap().push(u),
            // the remapped entry function the environment starts for each merged program
            quiver_environment::Command::StartProcess { function_index, .. } => {
                self.starts.lock().unwrap().push(function_index)
            }
            _ => {}
        }
        Ok(())
    }
    fn try_recv(
        &mut self,
    ) -> Result<Option<quiver_environment::Event<NoEffect>>, quiver_environment::EnvironmentError>
    {
        Ok(None)
    }
}

fn program_to_bytecode(p: &Program, entry: Option<usize>) -> Bytecode {
    p.to_bytecode(entry)
}


// ---------------------------------------------------------------------------------------------
// independent (Rust-side) abstract walk used to confirm static counterexamples of C07/C16:
// follows the given branch decisions through the real `Function.instructions` and recomputes the
// operand-stack height above the frame entry and the number of locals from the real tables.

fn walk(bc: &Bytecode, fid: usize, decisions: &[bool]) -> J {
    use quiver_core::bytecode::Instruction as I;
    let Some(f) = bc.functions.get(fid) else {
        return json!({"ok": false, "error": "no such function"});
    };
    let n = f.instructions.len() as i64;
    let mut h: i64 = 1;
    let mut l: i64 = f.captures as i64;
    let mut pc: i64 = 0;
    let mut k = 0usize;
    let mut steps = Vec::new();
    let mut problems = Vec::new();
    let mut guard = 0;
    while pc >= 0 && pc < n && guard <= n + 1 {
        guard += 1;
        let ins = f.instructions[pc as usize];
        steps.push(json!([pc, h, l]));
        let mut next = pc + 1;
        let (need, dh): (i64, i64) = match ins {
            I::Constant(c) => {
                if c >= bc.constants.len() { problems.push(json!([pc, "constant index out of range"])); }
                (0, 1)
            }
            I::Pop => (1, -1),
            I::Duplicate => (1, 1),
            I::Pick(n) => (n as i64 + 1, 1),
            I::Rotate(n) => (n as i64, 0),
            I::Reset(i) => {
                if (i as i64) > l { problems.push(json!([pc, "reset-beyond-locals"])); }
                l = i as i64;
                (0, 0)
            }
            I::Load(i) => {
                if (i as i64) >= l { problems.push(json!([pc, "load-undefined-local"])); }
                (0, 1)
            }
            I::Store => { l += 1; (1, -1) }
            I::Tuple(t) => match bc.tuples.get(t) {
                Some(info) => (info.fields.len() as i64, 1 - info.fields.len() as i64),
                None => { problems.push(json!([pc, "tuple index out of range"])); (0, 1) }
            },
            I::Get(_) => (1, 0),
            I::IsType(t) => {
                if t >= bc.types.len() { problems.push(json!([pc, "type index out of range"])); }
                (1, 0)
            }
            I::Jump(off) => { next = pc + off as i64 + 1; (0, 0) }
            I::JumpIf(off) => {
                let d = decisions.get(k).copied().unwrap_or(false);
                k += 1;
                if d { next = pc + off as i64 + 1; }
                (1, -1)
            }
            I::Call => (2, -1),
            I::TailCall(rec) => {
                let exact = if rec { 1 } else { 2 };
                if h < exact { problems.push(json!([pc, "stack-underflow"])); }
                if h != exact { problems.push(json!([pc, "tailcall-leaves-stack-cells"])); }
                next = -1;
                (0, 0)
            }
            I::Function(fi) => match bc.functions.get(fi) {
                Some(g) => (g.captures as i64, 1 - g.captures as i64),
                None => { problems.push(json!([pc, "function index out of range"])); (0, 1) }
            },
            I::Builtin(b) => {
                if b >= bc.builtins.len() { problems.push(json!([pc, "builtin index out of range"])); }
                (0, 1)
            }
            I::Equal(c) => (c as i64, 1 - c as i64),
            I::Not => (1, 0),
            I::Spawn => (2, -1),
            I::Send => (2, -1),
            I::Self_ => (0, 1),
            I::Select => (1, 0),
            I::Process(_, fi) => {
                if fi >= bc.functions.len() { problems.push(json!([pc, "process function index out of range"])); }
                (0, 1)
            }
        };
        if h < need { problems.push(json!([pc, "stack-underflow"])); }
        h += dh;
        if next != -1 && (next < 0 || next > n) {
            problems.push(json!([pc, "jump-out-of-range"]));
            next = -1;
        }
        if next == -1 { pc = -1; break; }
        pc = next;
    }
    if pc == n {
        steps.push(json!([pc, h, l]));
        if h != 1 { problems.push(json!([pc, "exit-height-not-one"])); }
    }
    json!({"ok": true, "steps": steps, "problems": problems})
}

// ---------------------------------------------------------------------------------------------

fn get_h(st: &State, req: &J) -> Result<usize, J> {
    let h = req
        .get("h")
        .and_then(|h| h.as_u64())
        .ok_or(json!({"ok": false, "error": "missing h"}))? as usize;
    if h >= st.progs.len() {
        return Err(json!({"ok": false, "error": "bad handle"}));
    }
    Ok(h)
}

fn handle(st: &mut State, req: &J) -> J {
    let op = req.get("op").and_then(|o| o.as_str()).unwrap_or("");
    match op {
        "compile" => {
            let source = req.get("source").and_then(|s| s.as_str()).unwrap_or("");
            let std_dir = req.get("std_dir").and_then(|s| s.as_str());
            let mut extra = HashMap::new();
            if let Some(m) = req.get("modules").and_then(|m| m.as_object()) {
                for (k, v) in m {
                    extra.insert(
                        k.split('/').map(|s| s.to_string()).collect::<Vec<_>>(),
                        v.as_str().unwrap_or("").to_string(),
                    );
                }
            }
            match compile_source(source, std_dir, &extra) {
                Ok(out) => {
                    let want_bc = req.get("dump").and_then(|d| d.as_bool()).unwrap_or(true);
                    let compat = if want_bc { compat_json(&out.bytecode) } else { J::Null };
                    let bcj = if want_bc {
                        bytecode_json(&out.bytecode)
                    } else {
                        J::Null
                    };
                    st.progs.push(Loaded { bytecode: out.bytecode });
                    json!({"ok": true, "h": st.progs.len() - 1, "bytecode": bcj,
                           "result_type": out.result_type, "receive_type": out.receive_type,
                           "compat": compat})
                }
                Err(e) => json!({"ok": false, "error": e}),
            }
        }
        "load" => {
            // load a bytecode given as JSON (e.g. a mutated one, or one read from a .qx file)
            match serde_json::from_value::<Bytecode>(req.get("bytecode").cloned().unwrap_or(J::Null)) {
                Ok(bc) => {
                    st.progs.push(Loaded { bytecode: bc });
                    json!({"ok": true, "h": st.progs.len() - 1})
                }
                Err(e) => json!({"ok": false, "error": e.to_string()}),
            }
        }
        "dump" => {
            let h = match get_h(st, req) { Ok(h) => h, Err(e) => return e };
            let bc = &st.progs[h].bytecode;
            json!({"ok": true, "bytecode": bytecode_json(bc), "compat": compat_json(bc)})
        }
        "run" => {
            let h = match get_h(st, req) { Ok(h) => h, Err(e) => return e };
            let bc = &st.progs[h].bytecode;
            let Some(entry) = bc.entry else {
                return json!({"ok": false, "error": "no entry"});
            };
            let max_steps = req.get("max_steps").and_then(|m| m.as_u64()).unwrap_or(50_000_000);
            let trace = req.get("trace").and_then(|t| t.as_bool()).unwrap_or(false);
            let profile = req.get("profile").and_then(|t| t.as_bool()).unwrap_or(false);
            runout_json(run_process(bc, entry, vec![], Value::nil(), vec![], max_steps, trace, profile))
        }
        "apply" => {
            let h = match get_h(st, req) { Ok(h) => h, Err(e) => return e };
            let bc = &st.progs[h].bytecode;
            let max_steps = req.get("max_steps").and_then(|m| m.as_u64()).unwrap_or(50_000_000);
            let trace = req.get("trace").and_then(|t| t.as_bool()).unwrap_or(false);
            let profile = req.get("profile").and_then(|t| t.as_bool()).unwrap_or(false);
            let mut heap = Vec::new();
            let f = match json_to_value(req.get("func").unwrap_or(&J::Null), &mut heap) {
                Ok(v) => v,
                Err(e) => return json!({"ok": false, "error": e}),
            };
            let arg = match json_to_value(req.get("arg").unwrap_or(&J::Null), &mut heap) {
                Ok(v) => v,
                Err(e) => return json!({"ok": false, "error": e}),
            };
            match f {
                Value::Function(idx, caps) => {
                    if idx >= bc.functions.len() {
                        return json!({"ok": false, "error": "function index out of range"});
                    }
                    runout_json(run_process(bc, idx, (*caps).clone(), arg, heap, max_steps, trace, profile))
                }
                _ => json!({"ok": false, "error": "func must be a fn value"}),
            }
        }
        "builtin" => {
            // call a builtin implementation directly: the observation point named by C12
            let name = req.get("name").and_then(|s| s.as_str()).unwrap_or("");
            let reg = registry();
            let Some(imp) = reg.get_implementation(name) else {
                return json!({"ok": false, "error": format!("no builtin {name}")});
            };
            let mut heap = Vec::new();
            let arg = match json_to_value(req.get("arg").unwrap_or(&J::Null), &mut heap) {
                Ok(v) => v,
                Err(e) => return json!({"ok": false, "error": e}),
            };
            let res = std::panic::catch_unwind(move || {
                let mut ex: Executor<NoEffect> = Executor::new(registry(), false, 0);
                let arg = match ex.inject_heap_data(arg, &heap) {
                    Ok(a) => a,
                    Err(e) => return json!({"ok": true, "result": {"error": error_json(&e)}}),
                };
                match imp(0, &arg, &mut ex) {
                    Ok(BuiltinResult::Value(v)) => {
                        json!({"ok": true, "result": {"value": value_to_json(&v, Some(&ex), &[])}})
                    }
                    Ok(BuiltinResult::Action(_)) => json!({"ok": true, "result": {"unsupported": "action"}}),
                    Err(e) => json!({"ok": true, "result": {"error": error_json(&e)}}),
                }
            });
            match res {
                Ok(j) => j,
                Err(p) => {
                    let msg = if let Some(s) = p.downcast_ref::<String>() {
                        s.clone()
                    } else if let Some(s) = p.downcast_ref::<&str>() {
                        s.to_string()
                    } else {
                        "panic".to_string()
                    };
                    json!({"ok": true, "result": {"panic": msg}})
                }
            }
        }
        "is_compatible" => {
            let h = match get_h(st, req) { Ok(h) => h, Err(e) => return e };
            let bc = &st.progs[h].bytecode;
            let pairs = req.get("pairs").and_then(|p| p.as_array()).cloned().unwrap_or_default();
            let overlap = req.get("mode").and_then(|m| m.as_str()) == Some("overlap");
            let mut out = Vec::new();
            for p in pairs {
                let a = p.get(0).and_then(|x| x.as_u64()).unwrap_or(0) as usize;
                let b = p.get(1).and_then(|x| x.as_u64()).unwrap_or(0) as usize;
                if overlap {
                    out.push(quiver_core::types::types_overlap(a, b, bc));
                } else {
                    out.push(quiver_core::types::is_compatible(a, b, bc));
                }
            }
            json!({"ok": true, "results": out})
        }
        #[cfg(quiver_verif)]
        "narrow" => {
            // narrowing's type arithmetic (private to the compiler crate; reached through the
            // cfg(quiver_verif) re-export) on a Program rebuilt from this bytecode's type tables.
            // All pairs are computed on the same Program, so the returned tables contain every
            // result type.
            let h = match get_h(st, req) { Ok(h) => h, Err(e) => return e };
            let bc = &st.progs[h].bytecode;
            let kind = req.get("kind").and_then(|m| m.as_str()).unwrap_or("intersect").to_string();
            let pairs = req.get("pairs").and_then(|p| p.as_array()).cloned().unwrap_or_default();
            let rebuilt: Result<Program, _> = serde_json::from_value(json!({
                "constants": [], "functions": [], "builtins": [],
                "tuples": serde_json::to_value(&bc.tuples).unwrap(),
                "types": serde_json::to_value(&bc.types).unwrap(),
            }));
            let mut program = match rebuilt {
                Ok(p) => p,
                Err(e) => return json!({"ok": false, "error": format!("cannot rebuild Program: {e}")}),
            };
            let mut out = Vec::new();
            for p in pairs {
                let a = p.get(0).and_then(|x| x.as_u64()).unwrap_or(0) as usize;
                let b = p.get(1).and_then(|x| x.as_u64()).unwrap_or(0) as usize;
                let r = std::panic::catch_unwind(std::panic::AssertUnwindSafe(|| {
                    if kind == "complement" {
                        quiver_compiler::compiler::verif_hooks::compute_complement(a, b, &mut program)
                    } else {
                        quiver_compiler::compiler::verif_hooks::intersect_types(a, b, &mut program)
                    }
                }));
                match r {
                    Ok(id) => out.push(json!(id)),
                    Err(_) => out.push(J::Null),
                }
            }
            json!({"ok": true, "results": out,
                   "types": serde_json::to_value(program.get_types()).unwrap(),
                   "tuples": serde_json::to_value(program.get_tuples()).unwrap()})
        }
        "tree_shake" => {
            let h = match get_h(st, req) { Ok(h) => h, Err(e) => return e };
            let bc = st.progs[h].bytecode.clone();
            let entry = req
                .get("entry")
                .and_then(|e| e.as_u64())
                .map(|e| e as usize)
                .or(bc.entry);
            let Some(entry) = entry else {
                return json!({"ok": false, "error": "no entry"});
            };
            let mut bc2 = bc;
            bc2.entry = Some(entry);
            let shaken = quiver_core::optimisation::tree_shake(bc2, entry);
            let j = bytecode_json(&shaken);
            let compat = compat_json(&shaken);
            st.progs.push(Loaded { bytecode: shaken });
            json!({"ok": true, "h": st.progs.len() - 1, "bytecode": j, "compat": compat})
        }
        "serde_roundtrip" => {
            let h = match get_h(st, req) { Ok(h) => h, Err(e) => return e };
            let bc = &st.progs[h].bytecode;
            let s = serde_json::to_string_pretty(bc).unwrap();
            match serde_json::from_str::<Bytecode>(&s) {
                Ok(bc2) => {
                    let same = bytecode_same(bc, &bc2);
                    st.progs.push(Loaded { bytecode: bc2 });
                    json!({"ok": true, "h": st.progs.len() - 1, "same": same})
                }
                Err(e) => json!({"ok": false, "error": e.to_string()}),
            }
        }
        "merge" => {
            // merge the given programs, in order, into one real Environment; returns the merged
            // program as bytecode whose entry is the remapped entry of the last one, plus every
            // remapped entry.
            let hs: Vec<usize> = req
                .get("hs")
                .and_then(|p| p.as_array())
                .map(|a| a.iter().filter_map(|x| x.as_u64()).map(|x| x as usize).collect())
                .unwrap_or_default();
            let updates = Arc::new(std::sync::Mutex::new(Vec::new()));
            let starts = Arc::new(std::sync::Mutex::new(Vec::new()));
            let workers: Vec<Box<dyn quiver_environment::WorkerHandle<NoEffect>>> =
                vec![Box::new(NullWorker { updates: updates.clone(), starts: starts.clone() })];
            let mut env = quiver_environment::Environment::<NoEffect>::new(workers);
            let mut entries = Vec::new();
            for h in &hs {
                if *h >= st.progs.len() {
                    return json!({"ok": false, "error": "bad handle"});
                }
                let bc = st.progs[*h].bytecode.clone();
                let before = env.get_program().get_functions().len();
                match env.start_process(Some(bc)) {
                    Ok(_pid) => {}
                    Err(e) => return json!({"ok": false, "error": format!("{:?}", e)}),
                }
                let _ = before;
                entries.push(J::Null);
            }
            // The remapped entry is not returned by start_process; recover it from the
            // StartProcess command is not possible with NullWorker, so locate it structurally:
            // the last registered wrapper is found by the caller through `entry_of`.
            let merged = program_to_bytecode(env.get_program(), None);
            let n_updates = updates.lock().unwrap().len();
            let j = bytecode_json(&merged);
            // The tables a worker really ends up with: the updates the real Environment sent,
            // applied in order to one real Executor, read back through the verification hook.
            // (Without the hook: recomputed from the merged bytecode, as before.)
            #[cfg(quiver_verif)]
            let compat = {
                let mut ex: Executor<NoEffect> = Executor::new(registry(), false, 0);
                let sent: Vec<ProgramUpdate> = updates.lock().unwrap().drain(..).collect();
                for u in sent {
                    ex.update_program(u);
                }
                let (tc, fp, bp) = ex.verif_compatibility_tables();
                json!({
                    "type_compatibility": sets_to_json(tc),
                    "canonical_tuples": compute_canonical_tuples(&merged.tuples),
                    "function_param_compatibility": sets_to_json(fp),
                    "builtin_param_compatibility": sets_to_json(bp),
                    "from_executor": true,
                })
            };
            #[cfg(not(quiver_verif))]
            let compat = compat_json(&merged);
            st.progs.push(Loaded { bytecode: merged });
            let entries: Vec<Option<usize>> = starts.lock().unwrap().clone();
            json!({"ok": true, "h": st.progs.len() - 1, "bytecode": j, "compat": compat, "updates": n_updates,
                   "entries": entries})
        }
        "set_entry" => {
            let h = match get_h(st, req) { Ok(h) => h, Err(e) => return e };
            let e = req.get("entry").and_then(|e| e.as_u64()).map(|e| e as usize);
            st.progs[h].bytecode.entry = e;
            json!({"ok": true})
        }
        "walk" => {
            let h = match get_h(st, req) { Ok(h) => h, Err(e) => return e };
            let fid = req.get("fid").and_then(|e| e.as_u64()).unwrap_or(0) as usize;
            let decisions: Vec<bool> = req
                .get("decisions")
                .and_then(|d| d.as_array())
                .map(|a| a.iter().map(|x| x.as_bool().unwrap_or(false)).collect())
                .unwrap_or_default();
            walk(&st.progs[h].bytecode, fid, &decisions)
        }
        "ping" => json!({"ok": true}),
        _ => json!({"ok": false, "error": format!("unknown op {op}")}),
    }
}

fn main() {
    let args: Vec<String> = std::env::args().collect();
    if args.len() < 2 || args[1] != "serve" {
        eprintln!("usage: qvdump serve   (JSON lines on stdin/stdout)");
        std::process::exit(2);
    }
    // keep panics of the code under test from spamming stderr; they are reported in-band
    std::panic::set_hook(Box::new(|_| {}));
    let mut st = State { progs: Vec::new() };
    let stdin = std::io::stdin();
    let stdout = std::io::stdout();
    for line in stdin.lock().lines() {
        let Ok(line) = line else { break };
        if line.trim().is_empty() {
            continue;
        }
        let resp = match serde_json::from_str::<J>(&line) {
            Ok(req) => {
                let r = std::panic::catch_unwind(std::panic::AssertUnwindSafe(|| handle(&mut st, &req)));
                match r {
                    Ok(j) => j,
                    Err(p) => {
                        let msg = if let Some(s) = p.downcast_ref::<String>() {
                            s.clone()
                        } else if let Some(s) = p.downcast_ref::<&str>() {
                            s.to_string()
                        } else {
                            "panic".to_string()
                        };
                        json!({"ok": false, "panic": msg})
                    }
                }
            }
            Err(e) => json!({"ok": false, "error": e.to_string()}),
        };
        let mut out = stdout.lock();
        let _ = writeln!(out, "{}", resp);
        let _ = out.flush();
    }
}
