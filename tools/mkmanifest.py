#!/usr/bin/env python3
"""Regenerates MANIFEST.json from the table below (single source of truth for the interface)."""
import json, os
V = os.path.dirname(os.path.dirname(os.path.abspath(__file__)))

CHECKS = {
 "C20": dict(
   engine="E1 SQVM (z3)",
   technique="symbolic execution of the compiled std/num.qv bytecode over unbounded z3 integers; per-path SMT obligations; native replay of models",
   category="model_checking",
   text="Solver-decided for every integer magnitude (no width bound) and every operand shape of the nil/int/Rational[/Surd] fragment: no runtime error, nil exactly where specified, exact value by cross-multiplication, canonical form. Bounded only by the per-path step bound and, for sqrt, the trial-division unrolling. This is the right level because the module is straight-line Quiver over arbitrary-precision integers: the inputs quantifier is infinite but the path set per shape is finite.",
   design_ref="DESIGN.md §4 C20",
   note="Trusted: SQVM instruction semantics and integer builtin models (validated against the real executor on every run), z3. num-bigint's own arithmetic is assumed exact. Inputs assumed canonical as the module documents.",
 ),
 "C07": dict(
   engine="E1 SQVM abstract mode (z3)",
   technique="per-function SMT encoding of all control-flow paths over (pc, stack height, locals) abstracted from the real compiler's bytecode; counterexample paths re-derived by a Rust walk of the real instructions",
   category="model_checking",
   text="For each function emitted by the real compiler for the corpus (std, examples, test-suite sources, spec examples), as compiled, after the real tree_shake and after the real Environment merge, ONE solver query decides all paths: jumps in range, no underflow below the frame, single height per join, exit with exactly one result, loads defined, Reset within locals, every Store reached with the same number of locals on all paths (so the slot a binding gets is path independent); table indices in range. The path quantifier is decided exhaustively (CFG proven acyclic); the program quantifier is instantiated by the corpus, which is what the property names.",
   design_ref="DESIGN.md §4 C07",
   note="Trusted: the instruction-effect table (validated each run against single-stepped real executions), z3. Programs outside the corpus are not covered; the corpus includes the generated tail-call and pattern-matching families.",
 ),
 "C16": dict(
   engine="E1 SQVM abstract mode (z3)",
   technique="per-function SMT encoding of all paths reaching each TailCall site; height above frame entry must equal the call's operand count",
   category="model_checking",
   text="Constant space of tail calls is a per-path static fact about the emitted code plus the VM's TailCall effect: on every path reaching TailCall(true) the height is exactly 1, TailCall(false) exactly 2, else every iteration leaves cells behind. Decided for all paths of every corpus function containing a tail call (including mutual recursion, nested blocks); the iteration-count quantifier disappears because the condition is iteration-independent.",
   design_ref="DESIGN.md §4 C16",
   note="Trusted: effect table + restated handle_tail_call semantics (validated against the real executor). Heap reclamation of dropped binaries is not decided (C06).",
 ),
 "C05": dict(
   engine="E2 Kani/CBMC",
   technique="Kani proof harnesses over the real private handle_select_timeout and over the duration-conversion statements of its call site in process_select_sources, copied verbatim from the current source into a generated harness and applied to a symbolic arbitrary-precision duration through the real num-bigint (scratch copy of quiver-core with an appended child module); counterexamples replayed by Kani concrete playback",
   category="model_checking",
   text="TIMEOUT CLAUSE ONLY. Decided for all (timeout: i64, start: u64, now: u64): a timeout source fires iff elapsed >= max(duration, 0) - never earlier than its duration after the select started waiting, a non-positive one at once - and yields nil. End to end (generated harness): for every duration in [-2^127, 2^127) and clocks below 2^62 ms the conversion statements of the call site followed by the kernel never fire before the mathematical duration, and fire an i64-range duration exactly when due. Source priority, mailbox order, filters, cursors, error propagation are NOT decided: that code owns Values and the process map, which CBMC cannot get through (DESIGN §2); a change there is not detected by this check.",
   design_ref="DESIGN.md §4 C05",
   note="Trusted: Kani 0.68/CBMC 6.11; stub RandomState::new -> constant. Bound: none on the three scalars of the kernel harness; 128-bit durations and clocks < 2^62 end to end. Of process_select_sources only the textually extracted conversion statements are executed; everything else outside handle_select_timeout is outside the claim.",
 ),
 "C13": dict(
   engine="E2 Kani/CBMC",
   technique="Kani proof harnesses over the real create_ref on a fresh Executor with symbolic worker id and counter; concrete playback of counterexamples",
   category="model_checking",
   text="REF-UNIQUENESS CLAUSE ONLY. Decided for all worker ids (u16) and counters < 2^48: refs minted by (w1,c1) and (w2,c2) are equal iff it is the same minting, and the per-worker counter strictly increases, hence two refs are equal only if they come from the same minting, across workers. Reflexivity/symmetry/transitivity of structural equality over all construction paths is not decided (values_equal owns Values and ropes).",
   design_ref="DESIGN.md §4 C13",
   note="Trusted: Kani 0.68/CBMC 6.11; stub RandomState::new -> constant. Bound: 2^48 mintings per worker.",
 ),
 "C19": dict(
   engine="E1 SQVM (z3, bit-vectors)",
   technique="symbolic execution of the compiled std/dict.qv with the keys' 32-bit hashes as free bit-vector variables; per-path SMT obligations against a finite-map model; FNV-1a pre-image search + native replay of models",
   category="model_checking",
   text="For every history shape of put/remove over up to k distinct keys and L operations (quick k=2,L=3; thorough k=3,L=4) a driver compiled by the real compiler performs the history and returns every observation; the solver decides, for EVERY assignment of 32-bit hashes to the keys (all partial and full collisions) and all stored values, that get/has?/count/entries on every version (queried after later operations: persistence) equal the finite map's, and that versions with equal contents are structurally equal (canonical shape). History shapes are enumerated exhaustively up to the bound; hashes and values are decided symbolically.",
   design_ref="DESIGN.md §4 C19",
   note="Trusted: SQVM semantics + 64-bit bitwise builtin models (validated against the real executor), z3. __binary_hash32__ is uninterpreted (its implementation is C12's subject). Keys are binaries; Str keys not driven. Longer histories / more keys are outside the bound.",
 ),
 "C01": dict(
   engine="E1 SQVM (z3)",
   technique="symbolic execution of the real bytecode of every exported function of the corpus programs over all constructor shapes of its declared parameter type (integer leaves symbolic); never-stuck and result-inhabits-type obligations; counterexamples re-compiled and run as source-level programs through the real compiler",
   category="model_checking",
   text="INPUTS QUANTIFIER ONLY. The program quantifier is instantiated by a corpus (std modules + examples; thorough adds the test-suite and spec sources) and by generated program families (library call sites with related argument types, user-defined generic functions, tail-call shapes, pattern-matching shapes, sequence shapes, functions over partial-typed parameters); for each function those programs export, the solver decides over EVERY value of the declared parameter type (all constructor shapes to depth 3 from the real type table, unbounded symbolic integers, opaque binaries) that execution never reaches a VM-level type failure and that returned values inhabit the inferred result type (real is_compatible). A violation is reported only if the same call, written as a source literal, is accepted by the real compiler and gets stuck on the real executor. A checker hole that no corpus function exercises is not detected.",
   design_ref="DESIGN.md §4 C01",
   note="Trusted: SQVM semantics/builtin models (validated against the real executor), z3, real is_compatible via qvdump. Functions with function/process/generic parameters are skipped; paths through concurrency instructions, unmodelled builtins on opaque binaries, the step/time budget are counted, not claimed.",
 ),
 "C12": dict(
   engine="E2 Kani/CBMC harness world",
   technique="Kani proof harnesses running the real builtin bodies (copied verbatim from /repo at check time) against reference models over symbolic arguments, with stand-ins for Value/num-bigint/Executor plumbing; real rope checked against a flat byte array; counterexamples decoded and replayed through the real builtin natively (dev and release) and judged by an independent Python model",
   category="model_checking",
   text="Per builtin and per concrete argument-binary length, one Kani harness decides over all 128-bit integer arguments and all byte contents that the real body returns the reference value, errors only outside the documented domain and never panics (CBMC's overflow/bounds/unwrap checks). Rope-shape independence is compositional: builtin harnesses use a flat reference rope; rope harnesses show the real BinaryData (owned, zeroed, tiled with symbolic count) agrees with it. Decided set = the harnesses that finish within memory (see evidence per_harness); slice/concat ropes and the Vec-building bodies binary_set/append/vector_push/elementwise exhaust CBMC's memory and are NOT claimed.",
   design_ref="DESIGN.md §4 C12",
   note="Trusted: Kani 0.68/CBMC 6.11, the stand-ins in kani/c12world (part of the claim), the harness reference models, checks/c12_models.py. Bounds: |n| < 2^127, binaries of 0..10 bytes at the listed lengths, rope depth 1. integer_sqrt/gcd/sin/cos and num-bigint arithmetic are outside.",
 ),
 "C06": dict(
   engine="E2 Kani/CBMC harness world",
   technique="Kani proof harnesses: one inductive step of each slot-accounting function (extracted verbatim from executor.rs at check time) from an arbitrary pre-state satisfying the representation invariant; counterexamples replayed by Kani concrete playback on the extracted real functions",
   category="model_checking",
   text="SLOT-ACCOUNTING KERNEL ONLY. For allocate_binary_data, retain, release and process_pending_free: from EVERY pre-state over 3 slots satisfying the representation invariant (freed => count 0; the reuse pool is duplicate-free and equals the freed set; the queue holds valid indices) and every argument, the invariant is re-established and: no slot with a positive count is reclaimed or handed out, a count reaching 0 is queued, exactly the queued slots still at 0 are reclaimed, no double free, the size limit is enforced. One inductive step covers call histories of any length for this kernel. NOT decided: that the interpreter, select state, REPL compaction and workers call retain/release the right number of times - a leak or premature free caused by mis-wired call sites (e.g. the select receiving slot) is not detected by this check.",
   design_ref="DESIGN.md §4 C06",
   note="Trusted: Kani 0.68/CBMC 6.11; stand-ins Value/BinaryData/Error in kani/c06world; the invariant as written in the harness. Bounds: 3 slots, queue of 0..1 entries, bare heap binaries (the instances with 2-3 queue entries and with a value nested in a tuple exhaust CBMC and run only with C06_HEAVY=1; evidence lists them as not_decided).",
 ),
 "C10": dict(
   engine="E1 SQVM (z3), equivalence of two bytecodes",
   technique="symbolic execution of the original and the packaged function value (real tree_shake, JSON round trip, real Environment merge) on the same symbolic argument; pairwise path equivalence by SMT; models replayed by applying both real function values on the real executor",
   category="translation_validation",
   text="FOR PROGRAMS WITH INPUTS ONLY. A closed program leaves nothing to quantify over; a program that evaluates to a function does. For each function-valued corpus program (generated small functions whose siblings differ only in constants, std exports with ground parameters, generated generic call sites) the real packaging steps are applied and the function value each variant evaluates to is shown equal to the original FOR EVERY ARGUMENT of the declared parameter type (all constructor shapes to depth 3, unbounded integers): for every pair of compatible paths the outcomes are equal. The merge variant merges the program after a sibling of identical structure and a seeded other program, which is what exposes index-remapping mistakes. Closed programs, the `%m` import path and longer merge histories are not covered.",
   design_ref="DESIGN.md §4 C10",
   note="Trusted: SQVM semantics/builtin models (validated against the real executor), z3; values of different id spaces are compared by tuple name and field labels; function-valued results by arity only.",
 ),
 "C08": dict(
   engine="E1-style: real compatibility tables dumped by qvdump (as compiled / real tree_shake / real Environment merge) + z3 over a symbolic value tree (sqvm/typesem.py)",
   technique="validation of the real run-time type-test tables (compute_type_compatibility, compute_param_compatibility) of every program variant against the set-theoretic meaning of the tested type: for every (tested type, tag) the solver searches the value space for a member the table rejects or a non-member it accepts; accepted-as-compiled must stay accepted after tree-shaking and merging; generated literals are also pushed through the real executor's type test (engine validation)",
   category="translation_validation",
   text="PER TABLE ENTRY, VALUES DECIDED BY THE SOLVER. For each corpus program (generated type families, partial-pattern function families, std, examples; thorough adds test-suite and spec sources) and each variant (as compiled, after the real tree_shake, merged into a real Environment after another program), for every type used by an IsType instruction or as a function parameter (receive filter) that is closed and first-order, and every tag (Integer, Binary, every tuple of the variant's table): accepted => some member has that tag and, for a closed tuple type, no value of it lies outside the tested type; a tuple type known to the table whose values all lie in the tested type (or that is one of its alternatives) => accepted; accepted as compiled => accepted in the other variants. Values to depth 3. Function/builtin/process/resource tags and types, open and generic types and longer merge histories are not covered; which tags can actually reach a given test (flow) is not analysed - the claim is about the tables.",
   design_ref="DESIGN.md §4 C08/C09",
   note="Trusted: sqvm/typesem.py, z3; the assumption that a value with tuple tag k has fields inhabiting k's declared field types (C01's subject).",
 ),
 "C09": dict(
   engine="E1-style: real type relation run by qvdump on real type tables + z3 over a symbolic value tree (sqvm/typesem.py)",
   technique="validation of every verdict of the real is_compatible / types_overlap on the real type tables of compiled programs: the set-theoretic meaning of each type is encoded as an SMT formula over a symbolic bounded value tree and the solver searches for a value on the wrong side of the verdict; models are re-judged by a second plain evaluator",
   category="translation_validation",
   text="PER VERDICT, VALUES DECIDED BY THE SOLVER. The quantifier over types is instantiated by the real type tables of a program corpus (generated type families: all pairs of 36 type expressions incl. partial, recursive and optional types; std; examples; thorough adds test-suite and spec sources) - up to 14 (quick) / 28 (thorough) distinct closed first-order types per program, all ordered pairs. For each pair the real functions are run; then, over EVERY value tree to depth 3: assignable => no value in A outside B; not overlapping => no common value; plus reflexivity and transitivity of the real relation over every triple. A second family stresses the coinductive machinery: 169 tuples over two recursive lists, their one-step unfoldings and cells against every union of two such tuples, both directions. Narrowing's intersect_types / compute_complement (reached through the cfg(quiver_verif) re-export) are run on the same pairs: no value of A and B outside the intersection, no value of A not in B outside the complement. Function/process/resource/generic types and unguarded cycles are not covered; a type pair no corpus table or family contains is not checked.",
   design_ref="DESIGN.md §4 C08/C09",
   note="Trusted: sqvm/typesem.py (the meaning of types: partial types closed-world over the program's tuples; under/over approximation at the depth limit so that every reported value is real), z3.",
 ),
}

NOT_APPLICABLE = {
 "C01": "not built yet in this round (planned: E1 over a program corpus, inputs quantifier only)",
 "C02": "needs an independent reference evaluator of docs/spec.md plus a program generator (translation validation); not built in this round - the inputs quantifier of compiled programs is partly covered by C01/C19/C20, the semantic agreement with the spec is not decided",
 "C03": "quantifies over interleavings of Worker::step/Environment::step; no installed engine executes the scheduler, workers or transports symbolically (Kani cannot finish one Executor::step; no concurrency support); a hand model would not be the real code",
 "C04": "same code and quantifier as C03 (await/deliver protocol across worker.rs and environment.rs over std HashMap and boxed trait objects): not encodable within reach",
 "C05": "not built yet (planned: Kani on handle_select_timeout / next_timeout_ms, timeout clause only)",
 "C06": "quantifies over programs and schedules of value movements through the interpreter and workers (retain/release wiring, select receiving slot); instruction handlers own Values and hash maps, which CBMC cannot get through, and SQVM does not model the heap accounting; only the 4-function slot kernel would be in reach and is not built",
 "C07": "not built yet (planned: E1 abstract mode)",
 "C08": "compute_type_compatibility/TypeIndex are HashMap/HashSet constructions over whole programs; Kani cannot run them and the MIR interpreter has no hash containers; checking the tables concretely would be a different technique",
 "C09": "check_type_relation is a 14-way recursive function over heap-resident enums with a std HashSet; under CBMC every recursion level explores every variant (measured blow-up on BinaryData::len); not encodable within reach",
 "C10": "quantifier over closed programs and merge histories: after the real tree_shake/serde/merge have run concretely there is no symbolic input left for a solver to decide; well-formedness half is covered by C07",
 "C11": "histories of lines through Repl, compiler, worker and environment; none is symbolically executable here",
 "C12": "not built yet (planned: MIR symbolic interpreter + Kani leaf kernels)",
 "C13": "not built yet (planned: Kani on create_ref, ref-uniqueness clause)",
 "C14": "Environment::{handle_effect_request, handle_deliver, handle_spawn, handle_process_results} over HashMaps, trait-object workers and backends under event interleavings: not encodable within reach",
 "C15": "schedules of failures vs awaits across workers; only builtin panics are in reach and they are covered under C12",
 "C16": "not built yet (planned: E1 abstract mode)",
 "C17": "format.rs/pretty.rs/parser.rs over arbitrary source text; the nom parser alone times out under Kani on 2 symbolic bytes",
 "C18": "parser and compiler over arbitrary text: not symbolically executable with the installed engines (Kani time-out on 2 symbolic bytes)",
 "C19": "not built yet (planned: E1 over compiled std/dict.qv with symbolic 32-bit hashes)",
}

def main():
    checks = []
    for pid in sorted(CHECKS):
        c = CHECKS[pid]
        checks.append({
            "property_id": pid,
            "quick_cmd": "./check %s quick" % pid,
            "thorough_cmd": "./check %s thorough" % pid,
            "evidence_file": "evidence/%s.json" % pid,
            "replay_cmd_template": "./check --replay {path}",
            "engine": c["engine"],
            "level_claimed": {"category": c["category"], "text": c["text"], "design_ref": c["design_ref"]},
            "level_note": c["note"],
            "technique": c["technique"],
        })
    man = {
        "version": 1,
        "setup_cmd": "./setup.sh",
        "hooks": {
            "guard": "cfg(quiver_verif)",
            "enable": "RUSTFLAGS=--cfg quiver_verif when sqvm/qv.py builds tools/qvdump against /repo's crates (own target dir under /verif/.build). Two hooks, both read-only accessors: quiver_compiler::compiler::verif_hooks re-exports narrowing's intersect_types/compute_complement; Executor::verif_compatibility_tables returns the executor's run-time type-test tables (used by C08's merged variant). The Kani harnesses need no hook: harness modules are appended to a scratch copy of the crate outside /repo and /verif, where cargo kani sets cfg(kani).",
            "baseline_off_cmd": "cd /repo && cargo test --workspace --no-fail-fast --offline",
            "source_commits": ["83ff66a", "9cbafb0"],
            "add_only": True,
        },
        "engines": [
            {"name": "E1 SQVM", "path": "sqvm/", "serves_properties": ["C01", "C02", "C07", "C16", "C19", "C20"],
             "kind_free_text": "z3-backed symbolic executor for Quiver bytecode produced by the real compiler (tools/qvdump drives the real parser/compiler/executor)"},
            {"name": "E2 Kani", "path": "kani/", "serves_properties": ["C05", "C13", "C07", "C12"],
             "kind_free_text": "Kani/CBMC proof harnesses appended to a scratch copy of quiver-core"},
            {"name": "E3 MIRSE", "path": "mirse/", "serves_properties": ["C12", "C06"],
             "kind_free_text": "symbolic interpreter of rustc MIR with call models (z3)"},
        ],
        "checks": checks,
        "not_applicable": [{"property_id": k, "reason": v} for k, v in sorted(NOT_APPLICABLE.items()) if k not in CHECKS],
        "notes": "All checks regenerate their encoding from /repo's working tree on every run (qvdump is rebuilt by cargo against /repo's crates; std/*.qv is read from disk). Exit 0 ok, 1 replayed violation, 2 inconclusive.",
    }
    json.dump(man, open(os.path.join(V, "MANIFEST.json"), "w"), indent=1)

if __name__ == "__main__":
    main()
