#!/bin/bash
# run every registered check at the given tier (default quick), sequentially; summary at the end
tier="${1:-quick}"
cd "$(dirname "$0")"
for id in $(python3 -c "import json; print(' '.join(c['property_id'] for c in json.load(open('MANIFEST.json'))['checks']))"); do
  start=$(date +%s)
  ./check "$id" "$tier" > "/tmp/verif_${id}_${tier}.log" 2>&1
  rc=$?
  echo "$id rc=$rc $(( $(date +%s) - start ))s $(tail -1 /tmp/verif_${id}_${tier}.log | cut -c1-160)"
done
