#!/usr/bin/env python3-vt
"""C01 — type soundness, decided for the *inputs* quantifier (E1, SQVM value mode).

The program quantifier cannot be decided here (no engine executes the type checker symbolically):
it is instantiated by a corpus — the standard library modules, the examples and (thorough) every
source string of the test suite / spec that the current compiler accepts.  For every function of
those programs that can be called on its own (no captures, or a closure found in the value the
program evaluates to) the solver decides the second quantifier: for EVERY value of the declared
parameter type (all constructor shapes up to a depth bound taken from the real type table, all
integer leaves symbolic and unbounded, binaries opaque) symbolic execution of the real bytecode
never reaches a VM-level type failure, and every value returned inhabits the declared result type
according to the real quiver_core::types::is_compatible.
"""
import json
import multiprocessing as mp
import os
import random
import sys
import time

sys.path.insert(0, os.path.dirname(os.path.dirname(os.path.abspath(__file__))))
import z3
from checks.common import Report
from sqvm.qv import QV
from sqvm.machine import (TimeBudget, Program, Machine, VInt, VBin, VTuple, VFn, VBuiltin, value_from_json, value_to_json,
                          is_nil, Unsupported, STUCK_KINDS, Atom)
from sqvm.builtins import Builtins
from sqvm.shapes import shapes, instantiate, describe, has_opaque, ShapeError
from sqvm.prove import Prover, StopJob
from sqvm.corpus import std_sources, example_sources, test_sources, spec_sources
from sqvm.gen_calls import programs as gen_call_programs, generic_programs
from sqvm.gen_tail import programs as gen_tail_programs
from sqvm.gen_patterns import programs as gen_pattern_programs
from sqvm.gen_seq import programs as gen_seq_programs
from sqvm.gen_partial import programs as gen_partial_programs
from sqvm.gen_dead import programs as gen_dead_programs
from sqvm.gen_spread import programs as gen_spread_programs

PROP = "C01"
MAX_SHAPES = 24
DEPTH = 3


def closures_in(prog, v, out, path="", depth=0):
    """closures reachable through record fields of the program's value, with their access path"""
    if depth > 4:
        return
    if isinstance(v, VFn):
        out.append((v, path))
    elif isinstance(v, VTuple):
        labels = prog.tuples[v.tid][1]
        for i, f in enumerate(v.f):
            lbl = labels[i][0] if i < len(labels) else None
            closures_in(prog, f, out, path + "." + (lbl if lbl else str(i)), depth + 1)


def literal(prog, j):
    """Quiver source literal for a value in qvdump's JSON (ints, binaries, tuples)"""
    t = j["t"]
    if t == "int":
        return j["v"]
    if t == "bin":
        return "0x" + bytes(j["v"]).hex()
    if t == "tuple":
        name, fields = prog.tuples[j["id"]]
        if not j["v"]:
            return name if name else "[]"
        parts = []
        for (lbl, _ft), x in zip(fields, j["v"]):
            parts.append((lbl + ": " if lbl else "") + literal(prog, x))
        return (name or "") + "[" + ", ".join(parts) + "]"
    raise Unsupported("no literal for " + t)


def fn_type(prog, fid):
    t = prog.types[prog.functions[fid].type_id] if prog.functions[fid].type_id < len(prog.types) else None
    if isinstance(t, dict) and "fn" in t:
        return t["fn"]
    return None


class Inhabit:
    """value ∈ type, decided by the real is_compatible on tags + recursion through the declared
    field types of the value's tuple id."""

    def __init__(self, qv, h, prog):
        self.qv = qv
        self.h = h
        self.p = prog
        self.cache = {}
        self.int_t = self._find("int")
        self.bin_t = self._find("bin")
        self.tuple_t = {}
        for i, t in enumerate(prog.types):
            if isinstance(t, dict) and "tuple" in t and t["tuple"] not in self.tuple_t:
                self.tuple_t[t["tuple"]] = i

    def _find(self, name):
        for i, t in enumerate(self.p.types):
            if t == name:
                return i
        return None

    def compat(self, a, b):
        if a == b:
            return True
        k = (a, b)
        if k not in self.cache:
            r = self.qv.req(op="is_compatible", h=self.h, pairs=[[a, b]])
            self.cache[k] = bool(r.get("results", [False])[0])
        return self.cache[k]

    def check(self, v, t, depth=0):
        """returns None if v inhabits t, else a string reason; 'skip' if undecidable here"""
        if depth > 12:
            return None
        if isinstance(v, VInt):
            if self.int_t is None:
                return "skip"
            return None if self.compat(self.int_t, t) else "integer is not a member of type %d" % t
        if isinstance(v, VBin):
            if self.bin_t is None:
                return "skip"
            return None if self.compat(self.bin_t, t) else "binary is not a member of type %d" % t
        if isinstance(v, VTuple):
            tt = self.tuple_t.get(v.tid)
            if tt is None:
                return "skip"
            if not self.compat(tt, t):
                return "tuple %s (id %d) is not a member of type %d" % (self.p.tuples[v.tid][0], v.tid, t)
            fields = self.p.tuples[v.tid][1]
            if len(fields) != len(v.f):
                return "tuple id %d has arity %d but the value has %d fields" % (v.tid, len(fields), len(v.f))
            for (lbl, ft), fv in zip(fields, v.f):
                r = self.check(fv, ft, depth + 1)
                if r and r != "skip":
                    return r
            return None
        if isinstance(v, VFn):
            ft = self.p.functions[v.fid].type_id
            return None if self.compat(ft, t) else "function %d is not a member of type %d" % (v.fid, t)
        return "skip"


def check_program(args):
    name, src, timeout_ms, seed, max_fns, shape_budget_s = args[:6]
    call_template = args[6] if len(args) > 6 else None
    out = {"rejected_by_compiler": 0, "not_reproduced_via_source": 0, "budget_exhausted": 0, "name": name, "functions": 0, "shapes": 0, "goals": 0, "ok": 0, "fail": [], "inconclusive": [],
           "paths": 0, "instr": 0, "queries": 0, "solver_s": 0.0, "skipped_opaque": 0, "unsupported_paths": 0,
           "bounded_paths": 0, "samples": [], "witnesses": 0, "domain_errors": 0, "compiled": False}
    rnd = random.Random(seed)
    with QV() as qv:
        c = qv.compile(src)
        if not c.get("ok"):
            return out
        out["compiled"] = True
        prog = Program(c["bytecode"], c["compat"])
        h = c["h"]
        # Only functions a program can actually reach by name are checked: the closures in the
        # value the program evaluates to (for a module: its exported record), addressed as
        # `(<source>).field`.  A counterexample is confirmed through that public path — the
        # argument is written as a source literal and the call is compiled by the real compiler —
        # so a value that no accepted program can build (e.g. a tuple id whose recursive field is
        # read in a wider union context than it was defined in) is never reported.
        fns = []
        paths = {}
        seen = set()
        r = qv.req(op="run", h=h, max_steps=3_000_000)
        if "value" in r.get("result", {}):
            try:
                found = []
                closures_in(prog, value_from_json(r["result"]["value"]), found)
                for f, pth in found:
                    k = (f.fid, repr(f.caps))
                    if k not in seen and prog.functions[f.fid].instrs:
                        seen.add(k)
                        fns.append(f)
                        paths[id(f)] = pth
            except Unsupported:
                pass
        if len(fns) > max_fns:
            fns = rnd.sample(fns, max_fns)
        inh = Inhabit(qv, h, prog)
        for fn in fns:
            ft = fn_type(prog, fn.fid)
            if ft is None:
                continue
            try:
                shp = shapes(prog, ft["parameter"], DEPTH, limit=5000)
            except ShapeError:
                out["skipped_opaque"] += 1
                continue
            shp = [s for s in shp if not has_opaque(s)]
            if not shp:
                out["skipped_opaque"] += 1
                continue
            if len(shp) > MAX_SHAPES:
                shp = rnd.sample(shp, MAX_SHAPES)
            out["functions"] += 1
            for s in shp:
                out["shapes"] += 1
                B = Builtins()
                solver = z3.Solver()
                leaves = []
                arg = instantiate(s, "x", "int", leaves)
                m = Machine(prog, B, solver=solver, max_steps=800, max_paths=150, feas_timeout_ms=1000)
                m.deadline = time.time() + shape_budget_s
                P = Prover(solver, timeout_ms, max_failures=1, soft_witness=True)
                desc = "%s fn %d (%s)" % (name, fn.fid, describe(prog, s))

                def on_sat(sv, fn=fn, arg=arg, desc=desc):
                    mdl = sv.model()
                    try:
                        argj = value_to_json(arg, mdl, atom_bytes=_AtomBytes())
                        lit = literal(prog, argj)
                    except Unsupported:
                        return None
                    # replay through the public API: a source program applying the function, reached
                    # by its access path, to the literal argument
                    if call_template is not None and paths[id(fn)] == "":
                        call = call_template.replace("{LIT}", lit)
                    elif src.startswith("%"):
                        call = "%s %s%s" % (lit, src, paths[id(fn)])
                    else:
                        out["rejected_by_compiler"] += 1
                        return None
                    c2 = qv.compile(call, dump=True)
                    if not c2.get("ok"):
                        out["rejected_by_compiler"] += 1
                        return None
                    rr = qv.req(op="run", h=c2["h"], max_steps=2_000_000)
                    res = rr.get("result", {})
                    site = "%s%s(%s)" % (name if call_template else src, paths[id(fn)],
                                         desc.split("(", 1)[1].rstrip(")"))
                    if "error" in res and res["error"]["kind"] in STUCK_KINDS:
                        return {"source": call, "fn": fn.fid, "arg": argj, "result": res, "site": site,
                                "kind": res["error"]["kind"],
                                "why": "VM-level type failure %s" % res["error"]["debug"]}
                    if "value" in res:
                        # the value of the accepted program must inhabit the type inferred for it
                        p2 = Program(c2["bytecode"], c2["compat"])
                        why2 = Inhabit(qv, c2["h"], p2).check(value_from_json(res["value"]), c2["result_type"])
                        if why2 and why2 != "skip":
                            return {"source": call, "fn": fn.fid, "arg": argj, "result": res, "site": site,
                                    "kind": "ResultOutsideInferredType",
                                    "why": "the value does not inhabit the inferred result type: " + why2}
                    out["not_reproduced_via_source"] += 1
                    return None

                def on_outcome(o):
                    if o.kind == "error":
                        if o.error in STUCK_KINDS or o.error == "Panic":
                            P.prove("%s never-stuck(%s %s)" % (desc, o.error, o.detail[:40]), False, on_sat)
                        else:
                            out["domain_errors"] += 1
                    elif o.kind == "value":
                        why = inh.check(o.value, ft["result"])
                        if why == "skip":
                            return
                        P.witness(desc)
                        P.prove("%s result-inhabits-type%s" % (desc, (": " + why) if why else ""),
                                True if why is None else False, on_sat)
                    elif o.kind == "bound":
                        out["bounded_paths"] += 1
                    else:
                        out["unsupported_paths"] += 1

                try:
                    m.run(fn, arg, on_outcome, [])
                except Unsupported:
                    out["unsupported_paths"] += 1
                except TimeBudget:
                    out["budget_exhausted"] += 1
                except StopJob:
                    pass
                out["goals"] += P.goals
                out["ok"] += P.ok
                out["queries"] += P.queries + m.stats.feas_queries
                out["solver_s"] += P.solver_s + m.stats.solver_s
                out["witnesses"] += P.witnesses
                # a non-reproducing model of a stuck path is an engine/feasibility artefact, not a verdict
                out["inconclusive"].extend(x for x in P.inconclusive if "did not reproduce" not in x)
                out["unconfirmed_candidates"] = out.get("unconfirmed_candidates", 0) + \
                    sum(1 for x in P.inconclusive if "did not reproduce" in x)
                for f in P.failures:
                    out["fail"].append({"goal": f["goal"], "cex": f["cex"]})
                out["paths"] += m.stats.paths
                out["instr"] += m.stats.instructions
                if len(out["samples"]) < 1 and P.goals:
                    out["samples"].append({"function": desc, "paths": m.stats.paths, "obligations": P.goals})
                if out["fail"]:
                    break
            if len(out["fail"]) >= 3:
                break
    return out


class _AtomBytes(dict):
    """concretise opaque binaries as distinct short byte strings"""

    def __contains__(self, k):
        return True

    def __getitem__(self, k):
        return ("k" + k).encode()[:12]


def main():
    rep = Report(PROP)
    tier = rep.tier
    timeout_ms = 10000 if tier == "quick" else 30000
    srcs = std_sources() + example_sources()
    if tier == "thorough":
        seen = set(s for _, s in srcs)
        for n, s in test_sources() + spec_sources():
            if s not in seen:
                seen.add(s)
                srcs.append((n, s))
    max_fns = 60 if tier == "quick" else 400
    shape_budget_s = 4 if tier == "quick" else 20
    jobs = [(n, s, timeout_ms, rep.seed, max_fns, shape_budget_s) for n, s in srcs]
    gen = gen_call_programs()
    if tier == "quick":
        gen = [g for g in gen if "/dispatch" in g["name"] or "/a_or_b/" in g["name"]]
    # user-defined generic functions called with arguments of related static types
    gen = gen + generic_programs()
    for g in gen:
        jobs.append((g["name"], g["src"], timeout_ms, rep.seed, 4, shape_budget_s,
                     g["defs"] + "f = " + g["fn"] + ",\n{LIT} f"))
    # generated tail-call shapes: every function kind x argument form x target x position the
    # compiler accepts, applied to every value of its parameter type
    gt = [(n, s) for n, s in gen_tail_programs() if not n.split("/")[1].startswith("proc")]
    if tier == "quick":
        gt = [(n, s) for n, s in gt if n.rsplit("/", 1)[1] in ("0", "3", "6")]
    for n, s in gt:
        jobs.append((n, s + ",\n&f", timeout_ms, rep.seed, 2, shape_budget_s, s + ",\n{LIT} f"))
    # generated pattern-matching shapes: subject type x pattern x context x result, each function
    # applied to every value of its subject type
    gp = gen_pattern_programs()
    if tier == "quick":
        gp = random.Random(rep.seed).sample(gp, 1600)
    for n, s in gp:
        jobs.append((n, s + ",\n&f", timeout_ms, rep.seed, 2, shape_budget_s, s + ",\n{LIT} f"))
    # generated sequence shapes: where a nil-able step sits in a sequence of 2-4 steps
    gs = gen_seq_programs()
    if tier == "quick":
        gs = random.Random(rep.seed + 7).sample(gs, 900)
    for n, s in gs:
        jobs.append((n, s + ",\n&f", timeout_ms, rep.seed, 2, shape_budget_s, s + ",\n{LIT} f"))
    # functions over partial-typed parameters (closed-world inhabitants from the program's tuples)
    for n, s in gen_partial_programs() + gen_dead_programs() + gen_spread_programs():
        jobs.append((n, s + ",\n&f", timeout_ms, rep.seed, 2, shape_budget_s, s + ",\n{LIT} f"))
    with mp.Pool(16) as pool:
        results = pool.map(check_program, jobs, chunksize=4)
    progs = 0
    tot = {"functions": 0, "shapes": 0, "skipped_opaque": 0, "unsupported_paths": 0, "bounded_paths": 0,
           "domain_errors": 0, "witnesses": 0, "budget_exhausted": 0, "rejected_by_compiler": 0,
           "not_reproduced_via_source": 0}
    # a generated family none of whose programs compiles has silently dropped out (e.g. one of
    # its shared definitions is rejected): that is a broken check, not a pass
    fam_total, fam_ok = {}, {}
    for r in results:
        fam = r["name"].split("/")[0]
        if fam.startswith("gen_"):
            fam_total[fam] = fam_total.get(fam, 0) + 1
            fam_ok[fam] = fam_ok.get(fam, 0) + (1 if r["compiled"] else 0)
    for fam in fam_total:
        if fam_ok[fam] == 0:
            rep.inconc("generated family %s: none of its %d programs is accepted by the compiler" % (fam, fam_total[fam]))
    rep.extra["generated_families_accepted"] = fam_ok
    for r in results:
        if not r["compiled"]:
            continue
        progs += 1
        for k in tot:
            tot[k] += r[k]
        rep.states += r["paths"]
        rep.transitions += r["instr"]
        rep.queries += r["queries"]
        rep.solver_s += r["solver_s"]
        rep.obligations += r["goals"]
        rep.discharged += r["ok"]
        for s in r["samples"]:
            rep.sample(s)
        for f in r["fail"]:
            rep.obligations -= 1
            cex = f["cex"]
            rep.violation("%s:%s" % (cex.get("site", cex["source"][:120]), cex.get("kind", cex["why"][:60])),
                          "accepted program `%s` -> %s" % (cex["source"][:300], cex["why"]), cex)
        for inc in r["inconclusive"]:
            rep.obligations -= 1
            rep.inconc(inc)
    rep.extra.update(tot)
    rep.extra["programs"] = progs
    rep.functions = ["every callable function of %d corpus programs (%d functions, %d parameter shapes)" % (
        progs, tot["functions"], tot["shapes"])]
    rep.bounds = {"value depth": DEPTH, "shapes per function": "all up to %d (seeded sample beyond)" % MAX_SHAPES,
                  "steps per path": 3000, "paths per shape": 400,
                  "programs": "std + examples + generated generic call sites (sqvm/gen_calls.py: 5 library call templates x 7x7 argument makers x 2 consumers)" + (" + test-suite sources + spec examples" if tier == "thorough" else "")}
    rep.assumptions = [
        "program quantifier instantiated by the corpus; a checker hole that no corpus program exercises is NOT detected",
        "functions with function/process/generic parameters are skipped (counted in skipped_opaque); paths through concurrency instructions or unmodelled builtins on opaque binaries are skipped (unsupported_paths); paths hitting the step bound are counted (bounded_paths)",
        "value-domain errors of partial builtins (InvalidArgument) are allowed outcomes (domain_errors)",
    ]
    sys.exit(rep.finish(
        rule="one obligation = one path end of one function on one parameter shape: never stuck / result inhabits the inferred type",
        trusted=["sqvm/machine.py", "sqvm/builtins.py", "real is_compatible via qvdump", "z3 %s" % z3.get_version_string()]))


if __name__ == "__main__":
    main()
