#!/usr/bin/env python3-vt
"""C16 — tail calls run in constant space (E1 abstract mode): on every path reaching a TailCall
the operand-stack height above the frame entry is exactly the call's operands (1 for `^`, 2 for
`^f`), so no iteration leaves cells behind; locals are truncated by the VM."""
import json, os, sys
sys.path.insert(0, os.path.dirname(os.path.dirname(os.path.abspath(__file__))))
import z3
from checks.common import Report
from checks import wellformed

rep = Report("C16")
wellformed.run("C16", rep, want=("c16",))

# VM side (native measurement at the property's own observation point, complementing the static
# decision above): the abstract TailCall effect — frame reused, locals truncated to the captures,
# one argument re-pushed — is what makes "height exactly k at the call" imply constant space.  It is
# validated on the real executor: terminating tail-recursive programs of each target form are run
# at N and 50N with profile = true and the peaks must not grow.
from sqvm.qv import QV
VM_PROGRAMS = [
    ("self ^", "f = #'int { | =0 => 0 | [$, 1] __integer_subtract__ ^ }, %d f"),
    ("self ^ in nested block", "f = #'int { | =0 => 0 | =n => { m = [n, 1] __integer_subtract__, { | m =0 => 0 | m ^ } } }, %d f"),
    ("pair accumulator", "f = #['int, 'int] { | =[0, acc] => acc | =[n, acc] => [[n, 1] __integer_subtract__, [acc, n] __integer_add__] ^ }, [%d, 0] f"),
    ("named ^g", "g = #'int { | =0 => 0 | [$, 1] __integer_subtract__ ^ }, f = #'int { ^g }, %d f"),
    ("closure capture", "k = 1, f = #'int { | =0 => 0 | [$, k] __integer_subtract__ ^ }, %d f"),
    ("binary dropped per iteration", "f = #['int, 'bin] { | =[0, b] => b | =[n, b] => [[n, 1] __integer_subtract__, [b, 0x00] __binary_concat__ [~, 0, 1] __binary_slice__] ^ }, [%d, 0xff] f"),
    # named / ripple tail calls whose callee is a closure capturing a binary built at run time:
    # the iterator library advances with `[..] self ^~`; every skipped element's closure is dropped
    ("ripple ^~ to closures capturing run-time binaries (%iter.filter)",
     "[[0, [0x01, 0x02] __binary_concat__], #['int, 'bin] { =[i, b], [i, %d] __integer_compare__ =-1, "
     "[[i, b], [[i, 1] __integer_add__, [b, 0x03] __binary_concat__ [~, 1, 3] __binary_slice__]] }] %%iter.unfold "
     "[~, #['int, 'bin] { =[i, _], [i, %d] __integer_compare__ =1 }] %%iter.filter [~, 0] %%iter.nth"),
    ("ripple ^~ to closures capturing run-time binaries (%iter.drop)",
     "[[0, [0x01, 0x02] __binary_concat__], #['int, 'bin] { =[i, b], [i, %d] __integer_compare__ =-1, "
     "[[i, b], [[i, 1] __integer_add__, [b, 0x03] __binary_concat__ [~, 1, 3] __binary_slice__]] }] %%iter.unfold "
     "[~, %d] %%iter.drop [~, 0] %%iter.nth"),
]
with QV() as qv:
    measured = 0
    for label, tmpl in VM_PROGRAMS:
        peaks = []
        for n in (40, 2000):
            src = tmpl % ((n, n - 2) if tmpl.count("%d") == 2 else n)
            c = qv.compile(src, dump=False)
            if not c.get("ok"):
                peaks = None
                break
            r = qv.req(op="run", h=c["h"], profile=True, max_steps=20_000_000)
            if r.get("panic") and "refcount" in str(r.get("panic")):
                # the debug build's own accounting check (check_refcounts at process completion):
                # a binary dropped by an earlier iteration is still counted as referenced
                rep.obligations += 1
                rep.violation("vm-refcount:%s" % label,
                              "tail-recursive program (%s) breaks the executor's reference-count invariant at N=%d: %s; program: %s" % (
                                  label, n, str(r.get("panic"))[:200], src),
                              {"program": src, "panic": r.get("panic")})
                peaks = None
                break
            if "value" not in (r.get("result") or {}):
                rep.inconc("VM-side measurement: accepted program (%s) does not evaluate at N=%d: %s" % (
                    label, n, json.dumps(r.get("result"))[:160]))
                peaks = None
                break
            peaks.append((r["peaks"]["stack"], r["peaks"]["locals"], r["peaks"]["frames"], r.get("heap_slots", 0)))
        if peaks is None:
            continue        # the current compiler rejects this shape: nothing to measure
        measured += 1
        rep.obligations += 1
        if peaks[0] == peaks[1]:
            rep.discharged += 1
        else:
            rep.violation("vm-peaks:%s" % label,
                          "tail-recursive program (%s) uses more space at N=2000 than at N=40 on the real executor: "
                          "(stack, locals, frames, heap slots) %s -> %s; program: %s" % (label, peaks[0], peaks[1], src),
                          {"program": tmpl, "peaks_n40": peaks[0], "peaks_n2000": peaks[1]})
    rep.validated += measured
    rep.extra["vm_side_programs_measured"] = measured
rep.assumptions = [
    "VM side: handle_tail_call truncates locals to base(+captures) and replaces the frame (restated in sqvm/machine.py, validated against the real executor)",
    "heap reclamation of binaries dropped by earlier iterations is not decided here (C06 kernel)",
    "the program quantifier is instantiated by the corpus; the iteration-count quantifier is discharged statically (height at the tail-call site is path-independent)",
]
sys.exit(rep.finish(
    rule="one obligation = one unique function containing at least one TailCall; decided by one z3 query over all paths reaching each tail-call site",
    trusted=["sqvm/abstract.py effect table", "qvdump walk", "z3 %s" % z3.get_version_string()]))
