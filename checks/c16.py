#!/usr/bin/env python3-vt
"""C16 — tail calls run in constant space (E1 abstract mode): on every path reaching a TailCall
the operand-stack height above the frame entry is exactly the call's operands (1 for `^`, 2 for
`^f`), so no iteration leaves cells behind; locals are truncated by the VM."""
import os, sys
sys.path.insert(0, os.path.dirname(os.path.dirname(os.path.abspath(__file__))))
import z3
from checks.common import Report
from checks import wellformed

rep = Report("C16")
wellformed.run("C16", rep, want=("c16",))
rep.assumptions = [
    "VM side: handle_tail_call truncates locals to base(+captures) and replaces the frame (restated in sqvm/machine.py, validated against the real executor)",
    "heap reclamation of binaries dropped by earlier iterations is not decided here (C06 kernel)",
    "the program quantifier is instantiated by the corpus; the iteration-count quantifier is discharged statically (height at the tail-call site is path-independent)",
]
sys.exit(rep.finish(
    rule="one obligation = one unique function containing at least one TailCall; decided by one z3 query over all paths reaching each tail-call site",
    trusted=["sqvm/abstract.py effect table", "qvdump walk", "z3 %s" % z3.get_version_string()]))
