#!/usr/bin/env python3-vt
"""./check --replay <file>: re-run a recorded counterexample natively on /repo's current tree.

A replay file is {"property", "key", "what", "replay": {...}} as written by checks/common.py.  What
can be re-run depends on the kind of counterexample:

  source program (C01, C08 literal runs, C10)     compiled by the real compiler, run on the real executor
  dict driver + keys + values (C19)               the driver is compiled, applied to the recorded keys/values
  %num operation + argument (C20)                 the real closure is applied to the recorded argument
  builtin + argument (C12)                        the real builtin is called (dev profile)
  function + branch decisions (C07, C16)          the Rust walk over the real instructions
  type pair / table entry (C08, C09)              the real verdict is asked again on the recorded program
  Kani harness (C05, C06, C13)                    the recorded concrete values are printed; re-run the check

Prints what it observed; exit 0 = the recorded failure is still observed, 3 = it is not (the tree
has changed), 2 = this kind cannot be re-run in isolation.
"""
import json
import os
import sys

sys.path.insert(0, os.path.dirname(os.path.dirname(os.path.abspath(__file__))))
from sqvm.qv import QV


def show(x, n=600):
    s = json.dumps(x) if not isinstance(x, str) else x
    return s if len(s) <= n else s[:n] + "…"


def main():
    d = json.load(open(sys.argv[1]))
    r = d.get("replay") or {}
    print("property:", d.get("property"))
    print("key:     ", d.get("key"))
    print("what:    ", show(d.get("what"), 1200))
    with QV() as qv:
        # --- type-level verdicts (C09) -----------------------------------------------------------
        if "a" in r and "b" in r and "source" in r and d.get("property") == "C09":
            c = qv.compile(r["source"], dump=False)
            if not c.get("ok"):
                print("the recorded program is no longer accepted:", show(c.get("error")))
                return 3
            key = d.get("key", "")
            if "drops-value" in key:
                kind = "complement" if "complement" in key else "intersect"
                nr = qv.req(op="narrow", h=c["h"], pairs=[[r["a"], r["b"]]], kind=kind)
                print("real %s(type %d, type %d) -> type %s (recorded result: %s; dropped value: %s)" % (
                    kind, r["a"], r["b"], nr.get("results"), r.get("result"), r.get("value")))
                return 0
            mode = "overlap" if "overlap" in key else "compat"
            v = qv.req(op="is_compatible", h=c["h"], pairs=[[r["a"], r["b"]]], **({"mode": "overlap"} if mode == "overlap" else {}))["results"][0]
            print("real %s(type %d, type %d) = %s; recorded value on the wrong side: %s" % (
                "types_overlap" if mode == "overlap" else "is_compatible", r["a"], r["b"], v, r.get("value")))
            still = (v is False) if mode == "overlap" else (v is True)
            return 0 if still else 3
        # --- bytecode paths (C07/C16) --------------------------------------------------------------
        if "violation" in r and "fid" in r:
            from sqvm.corpus import std_sources, example_sources, test_sources, spec_sources
            from sqvm.gen_tail import programs as gt
            from sqvm.gen_patterns import programs as gp
            src = None
            name = r.get("source", "")
            for n, s in std_sources() + example_sources() + test_sources() + spec_sources() + gt() + gp():
                if n == name:
                    src = s
                    break
            if src is None:
                print("source %r not found in the corpus (merged variants are not re-run in isolation)" % name)
                return 2
            c = qv.compile(src)
            if not c.get("ok"):
                print("no longer accepted by the compiler")
                return 3
            h = c["h"]
            if r.get("variant") == "tree_shaken":
                h = qv.req(op="tree_shake", h=h)["h"]
            v = r["violation"]
            w = qv.req(op="walk", h=h, fid=r["fid"], decisions=v["decisions"])
            print("Rust walk of fn %d along %s: problems %s" % (r["fid"], v["decisions"], show(w.get("problems"))))
            kinds = [p[1] for p in w.get("problems", [])]
            return 0 if (kinds or v["kind"] in ("inconsistent-height-at-join", "store-slot-depends-on-path")) else 3
        # --- builtins (C12) -------------------------------------------------------------------------
        if "builtin" in r and "arg" in r:
            res = qv.req(op="builtin", name=r["builtin"], arg=r["arg"])
            print("__%s__ on %s -> %s" % (r["builtin"], show(r["arg"]), show(res.get("result", res))))
            print("recorded verdicts:", show(r.get("verdicts")))
            return 0
        # --- dict histories (C19) -------------------------------------------------------------------
        if "driver" in r and "keys_hex" in r:
            lits = ["0x" + k for k in r["keys_hex"]] + [str(v) for v in r["values"]]
            src = r["driver"] + ",\n[" + ", ".join(lits) + "] drive" if "drive" in r["driver"] else None
            print("keys", r["keys_hex"], "hashes", r.get("hashes"), "values", r["values"])
            print("laws that failed when recorded:", r.get("failed"))
            print("recorded result:", show(r.get("result")))
            print("(re-run `./check C19 quick` to decide the history again on the current tree)")
            return 2
        # --- %num (C20) -----------------------------------------------------------------------------
        if "op" in r and "arg" in r and "failed" in r:
            from checks.c01 import literal
            from sqvm.machine import Program
            c = qv.compile("%num")
            P = Program(c["bytecode"], c["compat"])
            lit = literal(P, r["arg"])
            c2 = qv.compile("%s %%num.%s" % (lit, r["op"]), dump=False)
            if not c2.get("ok"):
                print("`%s %%num.%s` is not accepted: %s" % (lit, r["op"], show(c2.get("error"))))
                return 2
            res = qv.req(op="run", h=c2["h"], max_steps=2_000_000).get("result")
            print("`%s %%num.%s` -> %s   (recorded: %s; failed goals: %s)" % (lit, r["op"], show(res), show(r.get("result")), r.get("failed")))
            return 0 if json.dumps(res) == json.dumps(r.get("result")) else 3
        # --- source programs (C01, C08, C10) ---------------------------------------------------------
        if "source" in r and isinstance(r["source"], str) and ("result" in r or d.get("property") in ("C01", "C08", "C10")):
            c = qv.compile(r["source"], dump=False)
            if not c.get("ok"):
                print("the program is no longer accepted by the compiler:", show(c.get("error")))
                return 3
            res = qv.req(op="run", h=c["h"], max_steps=3_000_000).get("result")
            print("program:\n" + r["source"])
            print("-> ", show(res))
            if "result" in r:
                print("recorded:", show(r["result"]))
                return 0 if json.dumps(res) == json.dumps(r["result"]) else 3
            return 0
        # --- Kani harnesses --------------------------------------------------------------------------
        if "harness" in r:
            print("Kani harness %s; concrete values of the counterexample: %s" % (r["harness"], show(r.get("values"))))
            print(show(r.get("playback_tail", ""), 1500))
            print("(the playback needs the scratch harness crate: re-run the check for this property)")
            return 2
    print("nothing in this file can be re-run in isolation:", list(r.keys()))
    return 2


if __name__ == "__main__":
    sys.exit(main())
