#!/usr/bin/env python3-vt
"""C09 — assignability implies containment; overlap detection is complete (E1-style: real verdicts,
SMT over the value space).

For each program table (generated type families + corpus programs) and each pair of closed
first-order types (A, B) in it, the REAL `is_compatible(A, B)` and `types_overlap(A, B)` are asked
(qvdump, over the program's real type table).  Then the solver decides, over every value tree to
depth 3:

  * is_compatible(A, B) = true   =>  no value is in A and not in B
  * types_overlap(A, B) = false  =>  no value is in both A and B
  * is_compatible(A, A), and transitivity over every triple of the pair matrix (concrete)

A model is a concrete value; it is re-judged by a second, plain evaluator of membership before it
is reported.
"""
import multiprocessing as mp
import os
import random
import sys
import time

sys.path.insert(0, os.path.dirname(os.path.dirname(os.path.abspath(__file__))))
import z3
from checks.common import Report
from checks.typerel import Decider, tables, fmt_type, parse_tree, member, has_cycle, DEPTH
from sqvm.qv import QV
from sqvm.typesem import Unsupported
from sqvm.gen_types import programs as gen_type_programs, rec_left_types, rec_right_types, rec_program
from sqvm.corpus import std_sources, example_sources, test_sources, spec_sources

PROP = "C09"


def check_program(args):
    name, src, max_types, seed = args
    out = {"name": name, "compiled": False, "types": 0, "candidates": 0, "pairs": 0, "compat_true": 0,
           "overlap_false": 0, "goals": 0, "ok": 0, "fail": [], "inconclusive": [], "queries": 0, "solver_s": 0.0,
           "vacuous": 0, "transitivity_triples": 0, "samples": []}
    rnd = random.Random(seed)
    with QV() as qv:
        c = qv.compile(src)
        if not c.get("ok"):
            return out
        out["compiled"] = True
        types, tuples = tables(c["bytecode"])
        out["types"] = len(types)
        D = Decider(types, tuples)
        cand = [t for t in range(len(types)) if D.supported(t)]
        # one representative per printed form (the table holds many copies of the same type)
        by_form = {}
        for t in cand:
            by_form.setdefault(fmt_type(types, tuples, t, 4), t)
        cand = sorted(by_form.values())
        if len(cand) > max_types:
            cand = sorted(rnd.sample(cand, max_types))
        out["candidates"] = len(cand)
        pairs = [(a, b) for a in cand for b in cand]
        if not pairs:
            return out
        compat = qv.req(op="is_compatible", h=c["h"], pairs=pairs)["results"]
        overlap = qv.req(op="is_compatible", h=c["h"], pairs=pairs, mode="overlap")["results"]
        C = dict(zip(pairs, compat))
        O = dict(zip(pairs, overlap))
        out["pairs"] = len(pairs)
        inhabited = {}
        for a in cand:
            inhabited[a] = D.check(D.under(a))[0] == "sat"

        def confirm(tree_s, inside, outside):
            try:
                tree = parse_tree(tree_s)
                return all(member(types, tuples, t, tree) for t in inside) and \
                    not any(member(types, tuples, t, tree) for t in outside)
            except Exception:
                return False

        for (a, b) in pairs:
            fa, fb = fmt_type(types, tuples, a), fmt_type(types, tuples, b)
            if a == b:
                out["goals"] += 1
                if C[(a, b)]:
                    out["ok"] += 1
                else:
                    out["fail"].append({"key": "%s:not-reflexive(%s)" % (name, fa), "why": "is_compatible(A, A) is false for A = %s" % fa,
                                        "source": src, "a": a})
                continue
            if C[(a, b)]:
                out["compat_true"] += 1
                out["goals"] += 1
                if not inhabited[a]:
                    out["vacuous"] += 1
                r, tree = D.check(D.under(a), z3.Not(D.over(b)))
                if r == "unsat":
                    out["ok"] += 1
                elif r == "sat":
                    if confirm(tree, [a], [b]):
                        out["fail"].append({"key": "%s:assignable-not-contained(%s <= %s)" % (name, fa, fb),
                                            "why": "is_compatible(%s, %s) is true but the value %s is in the first and not in the second" % (fa, fb, tree),
                                            "source": src, "a": a, "b": b, "value": tree})
                    else:
                        out["inconclusive"].append("%s: model %s for %s <= %s not confirmed by the plain evaluator" % (name, tree, fa, fb))
                else:
                    out["inconclusive"].append("%s: solver unknown on %s <= %s" % (name, fa, fb))
            if not O[(a, b)]:
                out["overlap_false"] += 1
                out["goals"] += 1
                r, tree = D.check(D.under(a), D.under(b))
                if r == "unsat":
                    out["ok"] += 1
                elif r == "sat":
                    if confirm(tree, [a, b], []):
                        out["fail"].append({"key": "%s:overlap-missed(%s & %s)" % (name, fa, fb),
                                            "why": "types_overlap(%s, %s) is false but the value %s is in both" % (fa, fb, tree),
                                            "source": src, "a": a, "b": b, "value": tree})
                    else:
                        out["inconclusive"].append("%s: model %s for %s & %s not confirmed by the plain evaluator" % (name, tree, fa, fb))
                else:
                    out["inconclusive"].append("%s: solver unknown on %s & %s" % (name, fa, fb))
            if len(out["fail"]) >= 6:
                break
        # narrowing's type arithmetic (third clause): the real intersect_types / compute_complement
        # (reached through the cfg(quiver_verif) re-export) must not drop a value that can occur
        npairs = [(a, b) for (a, b) in pairs if a != b]
        for kind in ("intersect", "complement"):
            if not npairs or out["fail"]:
                break
            nr = qv.req(op="narrow", h=c["h"], pairs=npairs, kind=kind)
            if not nr.get("ok"):
                out["inconclusive"].append("%s: narrow op failed: %s" % (name, str(nr.get("error"))[:100]))
                break
            t2 = nr["types"]
            tu2 = [(t["name"], [(f[0], f[1]) for f in t["fields"]]) for t in nr["tuples"]]
            D2 = Decider(t2, tu2)
            for (a, b), res in zip(npairs, nr["results"]):
                if res is None:
                    out["goals"] += 1
                    out["fail"].append({"key": "%s:%s-panics(%s, %s)" % (name, kind, fmt_type(types, tuples, a), fmt_type(types, tuples, b)),
                                        "why": "%s panics" % kind, "source": src, "a": a, "b": b})
                    continue
                if not (D2.supported(a) and D2.supported(b) and D2.supported(res)):
                    out["narrow_skipped"] = out.get("narrow_skipped", 0) + 1
                    continue
                out["goals"] += 1
                out["narrow_checked"] = out.get("narrow_checked", 0) + 1
                fa, fb, fr = fmt_type(t2, tu2, a), fmt_type(t2, tu2, b), fmt_type(t2, tu2, res)
                if kind == "intersect":
                    r, tree = D2.check(D2.under(a), D2.under(b), z3.Not(D2.over(res)))
                    inside, outside = [a, b], [res]
                    what = "intersect_types(%s, %s) = %s drops the value %%s, which is in both" % (fa, fb, fr)
                else:
                    r, tree = D2.check(D2.under(a), z3.Not(D2.over(b)), z3.Not(D2.over(res)))
                    inside, outside = [a], [b, res]
                    what = "compute_complement(%s, %s) = %s drops the value %%s, which is in the first and not in the second" % (fa, fb, fr)
                if r == "unsat":
                    out["ok"] += 1
                elif r == "sat":
                    try:
                        tr = parse_tree(tree)
                        okc = all(member(t2, tu2, t, tr) for t in inside) and not any(member(t2, tu2, t, tr) for t in outside)
                    except Exception:
                        okc = False
                    if okc:
                        # role of the failing input: a recursive union whose variants were
                        # regrouped (the result, or the subtrahend, has the same back-reference
                        # pointing to a smaller union) vs. anything else
                        role = "[rebuilt-recursive-union]" if (has_cycle(t2, tu2, a) and (has_cycle(t2, tu2, res) or has_cycle(t2, tu2, b))) else ""
                        out["fail"].append({"key": "%s:%s-drops-value%s(%s, %s)" % (name, kind, role, fa, fb), "why": what % tree,
                                            "source": src, "a": a, "b": b, "result": fr, "value": tree})
                        if len(out["fail"]) >= 6:
                            break
                    else:
                        out["inconclusive"].append("%s: model %s for %s(%s, %s) not confirmed by the plain evaluator" % (name, tree, kind, fa, fb))
                else:
                    out["inconclusive"].append("%s: solver unknown on %s(%s, %s)" % (name, kind, fa, fb))
            out["queries"] += D2.queries
            out["solver_s"] += D2.solver_s
        # transitivity of the real relation over the matrix
        for a in cand:
            for b in cand:
                if a == b or not C[(a, b)]:
                    continue
                for c3 in cand:
                    if c3 == b or c3 == a or not C[(b, c3)]:
                        continue
                    out["transitivity_triples"] += 1
                    if not C[(a, c3)] and inhabited[a]:
                        out["goals"] += 1
                        out["fail"].append({"key": "%s:not-transitive(%s <= %s <= %s)" % (
                            name, fmt_type(types, tuples, a), fmt_type(types, tuples, b), fmt_type(types, tuples, c3)),
                            "why": "is_compatible holds for the two steps but not for the ends", "source": src,
                            "a": a, "b": b, "c": c3})
                        if len(out["fail"]) >= 6:
                            break
        out["queries"] = D.queries
        out["solver_s"] = D.solver_s
        if cand:
            out["samples"].append({"program": name, "types_in_table": len(types), "types_decided": len(cand),
                                   "assignable_pairs": out["compat_true"], "disjoint_pairs": out["overlap_false"]})
    return out


def check_rec(args):
    """recursive types against their unfoldings: every left tuple type against every union of two
    such tuples of this chunk, both directions"""
    name, rights, seed = args
    out = {"name": name, "compiled": False, "types": 0, "candidates": 0, "pairs": 0, "compat_true": 0,
           "overlap_false": 0, "goals": 0, "ok": 0, "fail": [], "inconclusive": [], "queries": 0, "solver_s": 0.0,
           "vacuous": 0, "transitivity_triples": 0, "samples": []}
    lefts = rec_left_types()
    src = rec_program(lefts, rights)
    with QV() as qv:
        c = qv.compile(src)
        if not c.get("ok"):
            out["inconclusive"].append("%s: generated program rejected: %s" % (name, str(c.get("error"))[:120]))
            return out
        out["compiled"] = True
        types, tuples = tables(c["bytecode"])
        out["types"] = len(types)
        r = qv.req(op="run", h=c["h"], max_steps=1_000_000).get("result", {})
        fns = (r.get("value") or {}).get("v") or []
        if len(fns) != len(lefts) + len(rights):
            out["inconclusive"].append("%s: generated program does not evaluate to its functions" % name)
            return out
        pt = [types[c["bytecode"]["functions"][f["id"]]["type_id"]]["fn"]["parameter"] for f in fns]
        A, Bs = pt[:len(lefts)], pt[len(lefts):]
        D = Decider(types, tuples)
        pairs = [(a, b) for a in A for b in Bs] + [(b, a) for a in A for b in Bs]
        pairs = [(a, b) for a, b in pairs if D.supported(a) and D.supported(b)]
        out["candidates"] = len(A) + len(Bs)
        out["pairs"] = len(pairs)
        compat = qv.req(op="is_compatible", h=c["h"], pairs=pairs)["results"]
        overlap = qv.req(op="is_compatible", h=c["h"], pairs=pairs, mode="overlap")["results"]
        for (a, b), cv, ov in zip(pairs, compat, overlap):
            if not cv and ov:
                continue
            fa, fb = fmt_type(types, tuples, a, 5), fmt_type(types, tuples, b, 5)
            out["goals"] += 1
            if cv:
                out["compat_true"] += 1
                rr, tree = D.check(D.under(a), z3.Not(D.over(b)))
                kind, why = "assignable-not-contained(%s <= %s)" % (fa, fb), "is_compatible(%s, %s) is true but the value %s is in the first and not in the second"
                inside, outside = [a], [b]
            else:
                out["overlap_false"] += 1
                rr, tree = D.check(D.under(a), D.under(b))
                kind, why = "overlap-missed(%s & %s)" % (fa, fb), "types_overlap(%s, %s) is false but the value %s is in both"
                inside, outside = [a, b], []
            if rr == "unsat":
                out["ok"] += 1
            elif rr == "sat":
                try:
                    tr = parse_tree(tree)
                    okc = all(member(types, tuples, t, tr) for t in inside) and not any(member(types, tuples, t, tr) for t in outside)
                except Exception:
                    okc = False
                if okc:
                    out["fail"].append({"key": "gen_rec:" + kind, "why": why % (fa, fb, tree), "source": src, "a": a, "b": b, "value": tree})
                    if len(out["fail"]) >= 4:
                        break
                else:
                    out["inconclusive"].append("%s: model %s for %s not confirmed by the plain evaluator" % (name, tree, kind))
            else:
                out["inconclusive"].append("%s: solver unknown on %s" % (name, kind))
        out["queries"] = D.queries
        out["solver_s"] = D.solver_s
        out["samples"].append({"program": name, "types_in_table": len(types), "pairs": len(pairs),
                               "assignable_pairs": out["compat_true"], "disjoint_pairs": out["overlap_false"]})
    return out


def main():
    rep = Report(PROP, level="translation_validation")
    tier = rep.tier
    rnd = random.Random(rep.seed)
    gen = [(n, s) for n, s, _e1, _e2 in gen_type_programs()]
    corpus = std_sources() + example_sources()
    if tier == "thorough":
        seen = set(s for _, s in corpus)
        for n, s in test_sources() + spec_sources():
            if s not in seen:
                seen.add(s)
                corpus.append((n, s))
    max_types = 14 if tier == "quick" else 28
    jobs = [(n, s, max_types, rep.seed) for n, s in gen + corpus]
    rights = rec_right_types()
    chunks = [rights[i:i + 20] for i in range(0, len(rights), 20)]
    if tier == "quick":
        chunks = rnd.sample(chunks, 32)
    rec_jobs = [("gen_rec/%d" % i, ch, rep.seed) for i, ch in enumerate(chunks)]
    with mp.Pool(16) as pool:
        results = pool.map(check_program, jobs, chunksize=2)
        results += pool.map(check_rec, rec_jobs, chunksize=1)
    progs = 0
    tot = {"pairs": 0, "compat_true": 0, "overlap_false": 0, "vacuous": 0, "transitivity_triples": 0, "candidates": 0,
           "narrow_checked": 0, "narrow_skipped": 0}
    for r in results:
        if not r["compiled"]:
            continue
        progs += 1
        for k in tot:
            tot[k] += r.get(k, 0)
        rep.queries += r["queries"]
        rep.solver_s += r["solver_s"]
        rep.obligations += r["goals"]
        rep.discharged += r["ok"]
        rep.states += r["candidates"]
        rep.transitions += r["pairs"]
        for s in r["samples"]:
            rep.sample(s)
        for f in r["fail"]:
            rep.obligations -= 1
            rep.violation(f["key"], f["why"], f)
        for inc in r["inconclusive"]:
            rep.obligations -= 1
            rep.inconc(inc)
    rep.extra.update(tot)
    rep.extra["programs"] = progs
    rep.extra["disagreements_checked"] = rep.obligations
    rep.functions = ["quiver_core::types::is_compatible", "quiver_core::types::types_overlap",
                     "quiver_compiler narrowing::intersect_types, narrowing::compute_complement (through the cfg(quiver_verif) re-export)",
                     "(run by the real code on the real type tables of %d programs; %d ordered type pairs)" % (progs, tot["pairs"])]
    rep.bounds = {"value depth": DEPTH, "tuple arity": 8,
                  "types": "closed first-order types (int, bin, tuples, unions, recursive types, partial types over the program's own tuples); up to %d distinct types per program" % max_types,
                  "programs": "generated type families (sqvm/gen_types.py: %d pairs of 36 type expressions; %d chunks of the recursive family = 169 tuples P[X, Y] over {two recursive lists, four one-step unfoldings, their Cons cells, int} against unions of two such tuples, both directions) + std + examples%s" % (
                      len(gen), len(chunks), " + test-suite and spec sources" if tier == "thorough" else ""),
                  "not covered": "function, process, resource, ref and generic types; unguarded cycles; values deeper than 3; narrowing on the recursive family (pairs of the first family and the corpus only)"}
    rep.assumptions = ["the meaning of a type is the set of value trees defined in sqvm/typesem.py (partial types: closed world over the program's tuple table)",
                       "a containment counterexample must be a value of A within depth 3 that is outside B at any depth (under/over approximation at the depth limit)"]
    sys.exit(rep.finish(
        rule="one obligation = one real verdict (assignable / disjoint / reflexive / transitive) checked against all value trees to depth 3",
        trusted=["sqvm/typesem.py", "z3 %s" % z3.get_version_string()]))


if __name__ == "__main__":
    main()
