"""E2 — run Kani/CBMC proof harnesses on a scratch copy of a /repo crate.

The crate is copied from /repo's current working tree to a temporary directory (outside /repo and
/verif), the harness module text is appended to the named source file (so private items are
reachable, no hook in /repo), `cargo kani` runs per harness under a time and memory cap, and the
scratch directory with its build output is removed before returning.
"""
import os
import re
import resource
import shutil
import subprocess
import sys
import tempfile
import time

REPO = "/repo"
VERIF = os.path.dirname(os.path.dirname(os.path.abspath(__file__)))


class KaniResult:
    def __init__(self, name):
        self.name = name
        self.status = "unknown"   # success | failed | unwinding | error | timeout
        self.checks = 0
        self.failed_checks = []
        self.covers = {}          # description -> SATISFIED/UNSATISFIABLE/...
        self.seconds = 0.0
        self.log = ""
        self.playback = None


def make_scratch(crate="quiver-core", appends=None):
    """appends: {relative source path: text to append}"""
    tmp = tempfile.mkdtemp(prefix="qv-verif.")
    shutil.copytree(os.path.join(REPO, crate), os.path.join(tmp, crate),
                    ignore=shutil.ignore_patterns("target"))
    root = open(os.path.join(REPO, "Cargo.toml")).read()
    root = re.sub(r"members\s*=\s*\[[^\]]*\]", 'members = ["%s"]' % crate, root, flags=re.S)
    root = re.sub(r"exclude\s*=\s*\[[^\]]*\]\n", "", root)
    open(os.path.join(tmp, "Cargo.toml"), "w").write(root)
    shutil.copy(os.path.join(REPO, "Cargo.lock"), os.path.join(tmp, "Cargo.lock"))
    for rel, text in (appends or {}).items():
        with open(os.path.join(tmp, crate, rel), "a") as f:
            f.write("\n" + text + "\n")
    return tmp


def _limits(mem_gb):
    def f():
        lim = int(mem_gb * (1 << 30))
        resource.setrlimit(resource.RLIMIT_AS, (lim, lim))
        os.setsid()
    return f


def run_harness(scratch, crate, harness, timeout_s=600, mem_gb=12, unwind=None, extra=None,
                target_dir=None):
    res = KaniResult(harness)
    env = dict(os.environ)
    env["CARGO_NET_OFFLINE"] = "true"
    env.pop("RUSTUP_TOOLCHAIN", None)
    cmd = ["cargo", "kani", "--harness", harness, "-Z", "stubbing"]
    if unwind is not None:
        cmd += ["--default-unwind", str(unwind)]
    if target_dir:
        cmd += ["--target-dir", target_dir]
    if extra:
        cmd += extra
    t0 = time.time()
    try:
        p = subprocess.Popen(cmd, cwd=os.path.join(scratch, crate), env=env, stdout=subprocess.PIPE,
                             stderr=subprocess.STDOUT, text=True, preexec_fn=_limits(mem_gb))
        try:
            out, _ = p.communicate(timeout=timeout_s)
        except subprocess.TimeoutExpired:
            try:
                os.killpg(p.pid, 9)
            except Exception:
                p.kill()
            out, _ = p.communicate()
            res.status = "timeout"
            res.log = out[-4000:]
            res.seconds = time.time() - t0
            return res
    except Exception as e:
        res.status = "error"
        res.log = repr(e)
        return res
    res.seconds = time.time() - t0
    res.log = out[-12000:]
    m = re.search(r"\*\* (\d+) of (\d+) failed", out)
    if m:
        res.checks = int(m.group(2))
    for cm in re.finditer(r"Check \d+: (\S+)\n\s+- Status: (\w+)\n\s+- Description: \"([^\"]*)\"", out):
        name, status, desc = cm.groups()
        if ".cover." in name or status in ("SATISFIED", "UNSATISFIABLE", "UNREACHABLE") and "cover" in name:
            res.covers[desc] = status
        elif status == "FAILURE":
            res.failed_checks.append((name, desc))
    # the summary lines are the most robust source of failed checks
    if not res.failed_checks:
        for fm in re.finditer(r"Failed Checks: (.*)", out):
            res.failed_checks.append(("summary", fm.group(1).strip().strip('"')))
    if "VERIFICATION:- SUCCESSFUL" in out:
        res.status = "success"
    elif "VERIFICATION:- FAILED" in out:
        if any("unwinding assertion" in d for _, d in res.failed_checks) and \
                all("unwinding assertion" in d for _, d in res.failed_checks):
            res.status = "unwinding"
        elif res.failed_checks:
            res.status = "failed"
        else:
            res.status = "error"   # e.g. out-of-memory: Status ERROR, no failing check
    else:
        res.status = "error"
    return res


def cleanup(scratch):
    shutil.rmtree(scratch, ignore_errors=True)
