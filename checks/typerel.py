"""Shared machinery for C08 (run-time type tests) and C09 (assignability / overlap): the verdicts
of the real code — `is_compatible`, `types_overlap`, the compatibility tables built by
quiver-core/src/compatibility.rs for the program as compiled, tree-shaken and merged — are compared
with the set-theoretic meaning of the types (sqvm/typesem.py) by SMT queries over a symbolic value
tree: a verdict is wrong iff the solver finds a value on the wrong side.
"""
import json
import os
import random
import sys
import time

sys.path.insert(0, os.path.dirname(os.path.dirname(os.path.abspath(__file__))))
import z3
from sqvm.typesem import TypeSem, Unsupported, INT_TAG, BIN_TAG

DEPTH = 3


def tables(bc):
    types = bc["types"]
    tuples = [(t["name"], [(f[0], f[1]) for f in t["fields"]]) for t in bc["tuples"]]
    return types, tuples


def fmt_type(types, tuples, tid, depth=3, stack=()):
    if tid >= len(types):
        return "?%d" % tid
    t = types[tid]
    if t in ("int", "bin", "ref"):
        return "'" + t
    if "tuple" in t:
        name, fields = tuples[t["tuple"]]
        if not fields:
            return name or "[]"
        if depth <= 0:
            return "%s[..]" % (name or "")
        return "%s[%s]" % (name or "", ", ".join(("%s: " % l if l else "") + fmt_type(types, tuples, ft, depth - 1, stack)
                                                 for l, ft in fields))
    if "union" in t:
        if not t["union"]:
            return "never"
        if depth <= 0:
            return "(..)"
        return "(" + " | ".join(fmt_type(types, tuples, v, depth - 1, stack + (tid,)) for v in t["union"]) + ")"
    if "cycle" in t:
        return "^%d" % t["cycle"]
    if "partial" in t:
        p = t["partial"]
        return "%s(%s)" % (p.get("name") or "", ", ".join("%s: %s" % (n, fmt_type(types, tuples, ft, depth - 1, stack))
                                                          for n, ft in p.get("fields") or []))
    return json.dumps(t)[:40]


def has_cycle(types, tuples, tid, seen=None):
    """does the type contain a recursive back-reference anywhere?"""
    if seen is None:
        seen = set()
    if tid in seen or tid >= len(types):
        return False
    seen.add(tid)
    t = types[tid]
    if isinstance(t, dict):
        if "cycle" in t:
            return True
        if "tuple" in t:
            return any(has_cycle(types, tuples, ft, seen) for _l, ft in tuples[t["tuple"]][1])
        if "union" in t:
            return any(has_cycle(types, tuples, v, seen) for v in t["union"])
        if "partial" in t:
            return any(has_cycle(types, tuples, ft, seen) for _n, ft in t["partial"].get("fields") or [])
    return False


class Decider:
    """One solver per program table; queries by push/pop."""

    def __init__(self, types, tuples, depth=DEPTH, timeout_ms=20000):
        self.types, self.tuples = types, tuples
        self.sem = TypeSem(types, tuples, depth=depth)
        self.solver = z3.Solver()
        self.solver.set("timeout", timeout_ms)
        self.queries = 0
        self.solver_s = 0.0
        self._supported = {}

    def supported(self, tid):
        if tid not in self._supported:
            try:
                self.sem.mem(tid, approx="under")
                self.sem.mem(tid, approx="over")
                self._supported[tid] = True
            except (Unsupported, RecursionError):
                self._supported[tid] = False
        return self._supported[tid]

    def check(self, *formulas):
        """returns ('sat', tree) | ('unsat', None) | ('unknown', None)"""
        t0 = time.time()
        self.solver.push()
        for f in formulas:
            self.solver.add(f)
        r = self.solver.check()
        out = ("unknown", None)
        if r == z3.sat:
            m = self.solver.model()
            out = ("sat", self.sem.tree(m))
        elif r == z3.unsat:
            out = ("unsat", None)
        self.solver.pop()
        self.queries += 1
        self.solver_s += time.time() - t0
        return out

    def under(self, tid):
        return self.sem.mem(tid, approx="under")

    def over(self, tid):
        return self.sem.mem(tid, approx="over")

    def root_tag(self):
        return self.sem.tag(())

    def tuple_formula(self, tup, approx):
        """membership in the tuple type `tup` itself (closed only)"""
        self.sem.approx = approx
        return self.sem._mem_tuple(tup, (), ())

    def generic_tuple_formula(self, tup, approx):
        """membership in the tuple type `tup` with its type variables read as "any value": the
        values that can carry this tag under some instantiation"""
        self.sem.approx = approx
        self.sem.var_any = True
        try:
            return self.sem._mem_tuple(tup, (), ())
        finally:
            self.sem.var_any = False

    def tuple_generic(self, tup):
        k = ("tupgeneric", tup)
        if k not in self._supported:
            try:
                self.generic_tuple_formula(tup, "under")
                self._supported[k] = True
            except (Unsupported, RecursionError):
                self._supported[k] = False
        return self._supported[k]

    def tuple_closed(self, tup):
        k = ("tupclosed", tup)
        if k not in self._supported:
            try:
                self.tuple_formula(tup, "under")
                self.tuple_formula(tup, "over")
                self._supported[k] = True
            except (Unsupported, RecursionError):
                self._supported[k] = False
        return self._supported[k]


def top_tuples(types, tid, stack=(), seen=None):
    """tuple ids that occur as top-level alternatives of a type (unions and cycles unfolded);
    None if the type has a top-level alternative that is not a tuple/int/bin (partial, var, ...)."""
    if seen is None:
        seen = set()
    key = (tid, stack)
    if key in seen:
        return set()
    seen.add(key)
    t = types[tid]
    if t in ("int", "bin"):
        return set()
    if isinstance(t, dict):
        if "tuple" in t:
            return {t["tuple"]}
        if "union" in t:
            out = set()
            for v in t["union"]:
                r = top_tuples(types, v, stack + (tid,), seen)
                if r is None:
                    return None
                out |= r
            return out
        if "cycle" in t:
            d = t["cycle"]
            if d > len(stack) or d <= 0:
                return None
            return top_tuples(types, stack[len(stack) - d], stack[:len(stack) - d], seen)
    return None


# ---- a second, plain evaluator of membership on concrete trees (replay of solver models) --------
def parse_tree(s):
    """inverse of TypeSem.tree: returns nested ('int',) | ('bin',) | ('tuple', name, [(label, sub)])"""
    pos = [0]

    def ident():
        i = pos[0]
        while pos[0] < len(s) and (s[pos[0]].isalnum() or s[pos[0]] in "_?!'"):
            pos[0] += 1
        return s[i:pos[0]]

    def value():
        if s.startswith("int", pos[0]) and not s[pos[0] + 3:pos[0] + 4].isalnum():
            pos[0] += 3
            return ("int",)
        if s.startswith("bin", pos[0]) and not s[pos[0] + 3:pos[0] + 4].isalnum():
            pos[0] += 3
            return ("bin",)
        name = ident()
        fields = []
        if pos[0] < len(s) and s[pos[0]] == "[":
            pos[0] += 1
            if s.startswith("...", pos[0]):
                pos[0] += 3
                fields = None
            else:
                while s[pos[0]] != "]":
                    save = pos[0]
                    lab = ident()
                    if lab and s.startswith(": ", pos[0]):
                        pos[0] += 2
                    else:
                        pos[0] = save
                        lab = None
                    fields.append((lab, value()))
                    if s.startswith(", ", pos[0]):
                        pos[0] += 2
            pos[0] += 1
        return ("tuple", name or None, fields)

    return value()


def member(types, tuples, tid, tree, stack=(), guard=None):
    """plain structural membership of a concrete tree (independent of the z3 encoding)"""
    if guard is None:
        guard = set()
    key = (tid, id(tree), stack)
    if key in guard:
        return False
    guard = guard | {key}
    t = types[tid]
    if t == "int":
        return tree == ("int",)
    if t == "bin":
        return tree == ("bin",)
    if isinstance(t, dict):
        if "tuple" in t:
            name, fields = tuples[t["tuple"]]
            if tree[0] != "tuple" or tree[1] != name or tree[2] is None or len(tree[2]) != len(fields):
                return False
            return all(l == tl and member(types, tuples, ft, sub, stack, guard)
                       for (l, ft), (tl, sub) in zip(fields, tree[2]))
        if "union" in t:
            return any(member(types, tuples, v, tree, stack + (tid,), guard) for v in t["union"])
        if "cycle" in t:
            d = t["cycle"]
            return member(types, tuples, stack[len(stack) - d], tree, stack[:len(stack) - d], guard)
        if "partial" in t:
            p = t["partial"]
            if tree[0] != "tuple" or tree[2] is None:
                return False
            if p.get("name") is not None and tree[1] != p["name"]:
                return False
            labels = [l for l, _ in tree[2]]
            for fn, ft in p.get("fields") or []:
                if fn not in labels:
                    return False
                if not member(types, tuples, ft, tree[2][labels.index(fn)][1], stack, guard):
                    return False
            return True
    raise Unsupported("member: %r" % (t,))
