#!/usr/bin/env python3-vt
"""C05 — select semantics: the timeout clause only (E2, Kani on the real handle_select_timeout)."""
import os, sys
sys.path.insert(0, os.path.dirname(os.path.dirname(os.path.abspath(__file__))))
from checks.common import Report
from checks.kani_check import run_kani_property, VERIF

rep = Report("C05")
harness = open(os.path.join(VERIF, "kani", "executor_harness.rs")).read()
run_kani_property(rep, "quiver-core", {"src/executor.rs": harness}, [
    {"name": "c05_timeout_rule", "what": "a timeout source fires iff elapsed >= max(duration, 0): never earlier than its duration, a non-positive one at once; yields nil",
     "need_cover": ["positive timeout fires", "timeout not yet due"]},
])
rep.bounds = {"timeout": "all i64", "start/now": "all u64 clock values (including now < start)"}
rep.assumptions = [
    "stub: std::hash::RandomState::new -> constant keys",
    "decides ONLY the timeout clause; source priority, mailbox cursors, filter re-entry and error propagation live in process_select_sources/scan_mailbox_for_message, which own Values and the process map and are outside Kani's reach (DESIGN §2)",
]
sys.exit(rep.finish(
    rule="one obligation = one Kani harness over all values of its symbolic inputs",
    trusted=["Kani 0.68 / CBMC 6.11 (CaDiCaL)", "the appended harness module kani/executor_harness.rs"]))
