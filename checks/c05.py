#!/usr/bin/env python3-vt
"""C05 — select semantics: the timeout clause only (E2, Kani on the real handle_select_timeout and
on the duration conversion written at its call site).

Two harnesses, appended to a scratch copy of quiver-core/src/executor.rs:

  c05_timeout_rule            the kernel: handle_select_timeout fires iff elapsed >= max(duration, 0)
                              (only when the kernel still takes an i64 duration)
  c05_timeout_from_duration   the path from the source value to the kernel: the statements between
                              `Value::Integer(timeout_ms) => {` and the call of handle_select_timeout
                              in process_select_sources are copied VERBATIM from the current source
                              into the harness, applied to a symbolic arbitrary-precision duration
                              (every 128-bit integer, through the real num-bigint), and the kernel
                              is called with the expression the source passes.  Claim: a timeout
                              never fires earlier than its mathematical duration, and a duration
                              in the i64 range fires exactly when it is due.
"""
import os, re, sys
sys.path.insert(0, os.path.dirname(os.path.dirname(os.path.abspath(__file__))))
from checks.common import Report
from checks.kani_check import run_kani_property, VERIF

rep = Report("C05")
K = os.path.join(VERIF, "kani")
src = open("/repo/quiver-core/src/executor.rs").read()

parts = [open(os.path.join(K, "executor_preamble.rs")).read()]
harnesses = []

sig = re.search(r"fn handle_select_timeout\(\s*&mut self,\s*(\w+):\s*(\w+),", src)
kernel_type = sig.group(2) if sig else None
if kernel_type == "i64":
    parts.append(open(os.path.join(K, "c05_harness.rs")).read())
    harnesses.append({"name": "c05_timeout_rule",
                      "what": "a timeout source fires iff elapsed >= max(duration, 0): never earlier than its duration, a non-positive one at once; yields nil",
                      "need_cover": ["positive timeout fires", "timeout not yet due"]})
else:
    rep.extra["kernel_harness_skipped"] = "handle_select_timeout no longer takes an i64 duration (%s): only the end-to-end harness applies" % kernel_type

m = re.search(r"Value::Integer\((\w+)\)\s*=>\s*\{(?P<pre>.*?)self\s*\.\s*handle_select_timeout\(\s*(?P<arg>[^,()]+(?:\([^()]*\))*[^,()]*),", src, re.S)
if not m:
    rep.inconc("the call of handle_select_timeout for an integer source was not found in process_select_sources (extraction failed)")
else:
    var = m.group(1)
    lets = re.findall(r"let\s+[^;]+;", m.group("pre"))
    arg = m.group("arg").strip()
    rep.extra["extracted_conversion"] = {"bound_name": var, "statements": lets, "argument": arg}
    parts.append('''
    /// C05 (timeout clause, from the source value): the conversion statements of
    /// process_select_sources, verbatim, on an arbitrary-precision duration.
    #[kani::proof]
    #[kani::unwind(6)]
    #[kani::stub(std::hash::RandomState::new, stub_random_state)]
    fn c05_timeout_from_duration() {
        #[allow(unused_imports)]
        use num_traits::ToPrimitive;
        let x: i128 = kani::any();
        let big = num_bigint::BigInt::from(x);
        let %(var)s = &big;
        // ---- verbatim from process_select_sources ----
        %(lets)s
        // ----------------------------------------------
        let start: u64 = kani::any();
        let now: u64 = kani::any();
        // clocks below 2^62 ms (146 million years of uptime): beyond that an i64-clamped
        // "unbounded" duration can come due, which is outside the claim
        kani::assume(start < (1u64 << 62) && now < (1u64 << 62));
        let mut e = fresh(0);
        let r = e.handle_select_timeout(%(arg)s, start, now);
        let fired = match &r {
            Ok(Some(v)) => {
                assert!(v.is_nil(), "a timeout yields nil");
                true
            }
            Ok(None) => false,
            Err(_) => {
                assert!(false, "handle_select_timeout never errors");
                false
            }
        };
        let elapsed: i128 = if now >= start { (now - start) as i128 } else { 0 };
        // never earlier than the duration, whatever its magnitude
        assert!(!fired || x <= 0 || elapsed >= x, "a timeout fired before its duration had elapsed");
        // durations in the i64 range fire exactly when due
        if x >= i64::MIN as i128 && x <= i64::MAX as i128 {
            assert!(fired == (x <= 0 || elapsed >= x), "a due timeout did not fire");
        }
        kani::cover!(fired && x > 0, "positive duration fires");
        kani::cover!(!fired && x > u64::MAX as i128, "duration beyond 64 bits waits");
        kani::cover!(fired && x < i64::MIN as i128, "hugely negative duration fires");
        std::mem::forget(r);
        std::mem::forget(e);
        std::mem::forget(big);
    }
''' % {"var": var, "lets": "\n        ".join(lets), "arg": arg})
    harnesses.append({"name": "c05_timeout_from_duration",
                      "what": "from the source value: the duration conversion of process_select_sources (verbatim) + the kernel never fire a timeout before its mathematical duration (all 128-bit durations), and fire an i64-range duration exactly when due",
                      "need_cover": ["positive duration fires", "duration beyond 64 bits waits"]})
parts.append("}\n")

if harnesses:
    run_kani_property(rep, "quiver-core", {"src/executor.rs": "\n".join(parts)}, harnesses)
rep.bounds = {"duration": "kernel: all i64; end to end: every integer in [-2^127, 2^127)", "start/now": "kernel: all u64 clock values (including now < start); end to end: below 2^62 ms"}
rep.assumptions = [
    "stub: std::hash::RandomState::new -> constant keys",
    "the conversion statements are taken textually from process_select_sources (between `Value::Integer(..) => {` and the call of handle_select_timeout); the rest of that function is NOT executed",
    "decides ONLY the timeout clause; source priority, mailbox cursors, filter re-entry and error propagation live in process_select_sources/scan_mailbox_for_message, which own Values and the process map and are outside Kani's reach (DESIGN §2)",
]
sys.exit(rep.finish(
    rule="one obligation = one Kani harness over all values of its symbolic inputs",
    trusted=["Kani 0.68 / CBMC 6.11 (CaDiCaL)", "the harness modules kani/executor_preamble.rs, kani/c05_harness.rs and the generated end-to-end harness in checks/c05.py"]))
