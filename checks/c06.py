#!/usr/bin/env python3-vt
"""C06 — binary heap accounting: the slot kernel only (E2 harness world).

The four functions that implement slot accounting — allocate_binary_data, process_pending_free,
retain, release — are extracted verbatim from /repo/quiver-core/src/executor.rs at check time and
compiled against stand-ins (Value with borrowed field slices, a BinaryData that is only a length).
From an ARBITRARY pre-state over 3 slots satisfying the representation invariant, one call with
arbitrary arguments must re-establish the invariant and its post-condition (no slot with a
positive count is reclaimed or handed out, a count reaching 0 is queued, exactly the queued slots
still at 0 are reclaimed, no double free).  One inductive step covers call histories of any length
for this kernel.  NOT decided: that the interpreter calls retain/release the right number of times
on every value movement, the select `receiving` slot, cross-worker transfer.
"""
import os, re, shutil, sys, tempfile
from concurrent.futures import ThreadPoolExecutor
sys.path.insert(0, os.path.dirname(os.path.dirname(os.path.abspath(__file__))))
from checks.common import Report
from checks import kani_runner as K

VERIF = os.path.dirname(os.path.dirname(os.path.abspath(__file__)))
WORLD = os.path.join(VERIF, "kani", "c06world")
QUICK = {"c06_allocate__0", "c06_retain_release__0_flat", "c06_process_pending__1"}
# instances CBMC does not finish on this image (time-out after 40 min / memory beyond 24 GB when
# run alone): not part of either tier unless C06_HEAVY=1; listed in the evidence as not decided
HEAVY = {"c06_retain_release__1_nested", "c06_process_pending__2", "c06_process_pending__3"}


def prepare(dst):
    shutil.copytree(WORLD, dst, dirs_exist_ok=True)
    real = os.path.join(dst, "real")
    os.makedirs(real, exist_ok=True)
    src = open("/repo/quiver-core/src/executor.rs").read()
    out = []
    for sig in (r"pub fn allocate_binary_data\(", r"fn process_pending_free\(", r"fn retain\(", r"fn release\("):
        m = re.search(r"((?:    ///[^\n]*\n)*    %s.*?\n    }\n)" % sig, src, re.S)
        if not m:
            raise RuntimeError("slot kernel function %s not found in executor.rs" % sig)
        out.append(m.group(1))
    open(os.path.join(real, "slot_kernel.rs"), "w").write("impl Executor {\n" + "\n".join(out) + "}\n")


def main():
    rep = Report("C06")
    src = open(os.path.join(WORLD, "src", "harness.rs")).read()
    names = re.findall(r"^fn (c06_\w+)\(\)", src, re.M)
    if rep.tier == "quick":
        names = [n for n in names if n in QUICK]
    elif os.environ.get("C06_HEAVY") != "1":
        rep.extra["not_decided"] = sorted(n for n in names if n in HEAVY)
        names = [n for n in names if n not in HEAVY]
    scratch = tempfile.mkdtemp(prefix="qv-verif-c06.")
    try:
        prepare(scratch)
        def one(n):
            return n, K.run_harness(scratch, ".", n, timeout_s=1500, mem_gb=12,
                                    target_dir=os.path.join(scratch, "target-" + n))
        results = [one(names[0])]
        with ThreadPoolExecutor(max_workers=4) as ex:
            results += list(ex.map(one, names[1:]))
        for n, r in results:
            rep.queries += 1
            rep.solver_s += r.seconds
            rep.states += 1
            rep.transitions += max(r.checks, 1)
            rep.functions.append(n)
            if r.status == "success":
                rep.ok()
                rep.sample({"harness": n, "cbmc_checks": r.checks, "covers": r.covers,
                            "seconds": round(r.seconds, 1), "verdict": "SUCCESSFUL"})
            elif r.status == "failed":
                # the kernel is scalar/Vec code; replay = Kani's own playback in the harness world
                from checks.kani_check import playback
                ok, text, vals = playback(scratch, ".", n)
                desc = "; ".join(d for _, d in r.failed_checks[:4])
                if ok:
                    rep.violation("kani:%s:%s" % (n, desc[:60]),
                                  "slot kernel harness %s fails: %s (concrete pre-state/arguments %s; reproduced by playback on the extracted real functions)" % (n, desc, vals[:16]),
                                  {"harness": n, "failed_checks": r.failed_checks, "values": vals, "playback_tail": text[-1500:]})
                else:
                    rep.inconc("%s: counterexample (%s) did not reproduce under playback" % (n, desc))
            else:
                rep.inconc("%s: %s after %.0fs" % (n, r.status, r.seconds))
    finally:
        K.cleanup(scratch)
    rep.bounds = {"slots": 3, "pending_free queue": "0..1 entries (concrete length per instance, arbitrary contents); 2 and 3 entries only with C06_HEAVY=1",
                  "refcounts": "all u32", "values released/retained": "a heap binary (bare; the instance nested one level in a tuple does not finish)"}
    rep.assumptions = [
        "stand-ins: Value with borrowed field slices, BinaryData = length only, Error = InvalidArgument; stub alloc::fmt::format",
        "pre-states are constrained only by the representation invariant and the callers' documented preconditions (retain/release on a live slot, release with a positive count, retain below u32::MAX)",
        "decides only the four-function kernel; the wiring of retain/release in instruction handlers, select state and workers is NOT decided",
    ]
    sys.exit(rep.finish(
        rule="one obligation = one Kani harness: one inductive step of one kernel function from every valid pre-state",
        trusted=["Kani 0.68 / CBMC 6.11", "kani/c06world stand-ins and invariant"]))


if __name__ == "__main__":
    main()
