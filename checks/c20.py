#!/usr/bin/env python3-vt
"""C20 — the num module computes exactly and propagates absence.

Engine E1 (SQVM): the closures of the record `%num` evaluates to (real compiler output from the
current tree) are executed symbolically on every operand *shape* (nil / int / Rational / Surd with
int-or-rational coefficients — a finite enumeration taken from the real type table) with every
integer leaf an unbounded z3 Int.  Per path the solver decides: no runtime error, nil exactly where
the spec says, exact value (cross-multiplied, no division in the oracle), canonical form.
Counterexamples are concretised (with gcd/coprime refinement so that the model is arithmetically
real), replayed through the real executor and judged by the same oracle evaluated on Python ints.
"""
import json
import math
import os
import sys
import time
from fractions import Fraction

sys.path.insert(0, os.path.dirname(os.path.dirname(os.path.abspath(__file__))))
import z3
from checks.common import Report, tier, seed
from sqvm.qv import QV
from sqvm.machine import (TimeBudget, Program, Machine, VInt, VTuple, VFn, value_from_json, value_to_json, is_nil,
                          Unsupported, STUCK_KINDS)
from sqvm.builtins import Builtins
from sqvm.shapes import shapes, instantiate, describe, has_opaque
from sqvm.logic import AND, OR, NOT, IMPL, IFF, ITE, ABS, SIGN, is_sym
from sqvm.prove import Prover, StopJob

PROP = "C20"

# ------------------------------------------------------------------------------------------------
# semantic view of a num value


class Num:
    """kind: 'nil' | 'int' | 'rat' | 'surd' | 'other'.  A, B are (numerator, denominator) pairs of
    the value A + B·√n (for int/rat: B = (0, 1), n = 1)."""

    def __init__(self, kind, A=None, B=None, n=None, raw=None):
        self.kind = kind
        self.A = A
        self.B = B
        self.n = n
        self.raw = raw


def coeff_of(prog, v):
    if isinstance(v, VInt):
        return ("int", (v.v, 1))
    if isinstance(v, VTuple) and prog.tuples[v.tid][0] == "Rational" and len(v.f) == 2 \
            and all(isinstance(x, VInt) for x in v.f):
        return ("rat", (v.f[0].v, v.f[1].v))
    return None


def num_of(prog, v):
    if is_nil(v):
        return Num("nil", raw=v)
    c = coeff_of(prog, v)
    if c is not None:
        return Num(c[0], A=c[1], B=(0, 1), n=1, raw=v)
    if isinstance(v, VTuple) and prog.tuples[v.tid][0] == "Surd" and len(v.f) == 3:
        a = coeff_of(prog, v.f[0])
        b = coeff_of(prog, v.f[1])
        if a is not None and b is not None and isinstance(v.f[2], VInt):
            n = Num("surd", A=a[1], B=b[1], n=v.f[2].v, raw=v)
            n.akind = a[0]
            n.bkind = b[0]
            return n
    return Num("other", raw=v)


class Oracle:
    """Arithmetic facts, symbolic (z3) or concrete (Python ints) depending on the leaves."""

    def __init__(self, builtins=None):
        self.b = builtins

    def cop(self, x, y):
        if not is_sym(x) and not is_sym(y):
            return math.gcd(x, y) == 1
        return self.b.cop(x, y)

    # rationals as (n, d) with d > 0
    @staticmethod
    def qeq(x, y):
        return x[0] * y[1] == y[0] * x[1]

    @staticmethod
    def qlt(x, y):
        return x[0] * y[1] < y[0] * x[1]

    @staticmethod
    def qle(x, y):
        return x[0] * y[1] <= y[0] * x[1]

    @staticmethod
    def qadd(x, y):
        return (x[0] * y[1] + y[0] * x[1], x[1] * y[1])

    @staticmethod
    def qsub(x, y):
        return (x[0] * y[1] - y[0] * x[1], x[1] * y[1])

    @staticmethod
    def qmul(x, y):
        return (x[0] * y[0], x[1] * y[1])

    @staticmethod
    def qneg(x):
        return (-x[0], x[1])

    def canonical_rat(self, q):
        return AND(q[1] > 0, self.cop(q[0], q[1]))

    def canonical(self, num):
        """The module's canonical form for a value (used as input assumption and output goal)."""
        if num.kind in ("nil", "int"):
            return True
        if num.kind == "rat":
            return self.canonical_rat(num.A)
        if num.kind == "surd":
            cs = [num.B[0] != 0, num.n > 1]
            if num.akind == "rat":
                cs.append(self.canonical_rat(num.A))
                cs.append(num.A[1] != 1)      # "integral coefficients are lowered" (std/num.qv, `num`)
            if num.bkind == "rat":
                cs.append(self.canonical_rat(num.B))
                cs.append(num.B[1] != 1)
            return AND(*cs)
        return False

    def lowered(self, num):
        """Output-only: surd coefficients produced by the module are lowered (an integral rational
        coefficient is an int)."""
        if num.kind != "surd":
            return True
        cs = []
        if num.akind == "rat":
            cs.append(num.A[1] != 1)
        if num.bkind == "rat":
            cs.append(num.B[1] != 1)
        return AND(*cs)


# ------------------------------------------------------------------------------------------------
# specifications (rational fragment; surd fragment in spec_surd below)

def is_q(n):
    return n.kind in ("int", "rat")


def spec(op, args, res, O):
    """Return a list of (name, goal).  args: list of Num; res: Num.  Only called when every
    operand is nil/int/rat (the rational fragment)."""
    goals = []
    anynil = any(a.kind == "nil" for a in args)

    def nil_iff(cond_nil):
        goals.append(("nil-exactly-when-specified", IFF(res.kind == "nil", cond_nil) if isinstance(cond_nil, bool)
                      else (cond_nil if res.kind == "nil" else NOT(cond_nil))))

    if op in ("add", "sub", "mul"):
        if anynil:
            goals.append(("nil-propagates", res.kind == "nil"))
            return goals
        x, y = args
        goals.append(("non-nil", res.kind != "nil"))
        if res.kind == "nil":
            return goals
        E = {"add": O.qadd, "sub": O.qsub, "mul": O.qmul}[op](x.A, y.A)
        goals.append(("kind", res.kind == ("int" if x.kind == "int" and y.kind == "int" else "rat")))
        if is_q(res):
            goals.append(("exact", O.qeq(res.A, E)))
            goals.append(("canonical", O.canonical(res)))
        return goals
    if op == "div":
        if anynil:
            goals.append(("nil-propagates", res.kind == "nil"))
            return goals
        x, y = args
        zero = (y.A[0] == 0)
        if res.kind == "nil":
            goals.append(("nil-only-on-zero-divisor", zero))
            return goals
        goals.append(("zero-divisor-gives-nil", NOT(zero)))
        goals.append(("kind", res.kind == "rat"))
        if res.kind == "rat":
            # res = x / y  <=>  res * y = x
            goals.append(("exact", O.qeq(O.qmul(res.A, y.A), x.A)))
            goals.append(("canonical", O.canonical(res)))
        return goals
    if op in ("neg", "abs"):
        x, = args
        if anynil:
            goals.append(("nil-propagates", res.kind == "nil"))
            return goals
        goals.append(("kind-preserved", res.kind == x.kind))
        if is_q(res):
            if op == "neg":
                goals.append(("exact", O.qeq(res.A, O.qneg(x.A))))
            else:
                goals.append(("exact", AND(res.A[0] * x.A[1] == ABS(x.A[0]) * res.A[1])))
            goals.append(("canonical", O.canonical(res)))
        return goals
    if op in ("compare", "sign"):
        if anynil:
            goals.append(("nil-propagates", res.kind == "nil"))
            return goals
        x = args[0]
        y = args[1] if op == "compare" else Num("int", A=(0, 1), B=(0, 1), n=1)
        goals.append(("is-int", res.kind == "int"))
        if res.kind == "int":
            r = res.A[0]
            goals.append(("sign-of-difference", AND(IFF(r == -1, O.qlt(x.A, y.A)),
                                                    IFF(r == 1, O.qlt(y.A, x.A)),
                                                    IFF(r == 0, O.qeq(x.A, y.A)))))
        return goals
    if op in ("eq?", "lt?", "le?", "gt?", "ge?"):
        if anynil:
            goals.append(("nil-propagates", res.kind == "nil"))
            return goals
        x, y = args
        holds = {"eq?": O.qeq(x.A, y.A), "lt?": O.qlt(x.A, y.A), "le?": O.qle(x.A, y.A),
                 "gt?": O.qlt(y.A, x.A), "ge?": O.qle(y.A, x.A)}[op]
        isok = isinstance(res.raw, VTuple) and res.raw.tid == 1
        goals.append(("ok-or-nil", isok or res.kind == "nil"))
        goals.append(("verdict", holds if isok else NOT(holds)))
        return goals
    if op in ("min", "max"):
        if anynil:
            goals.append(("nil-propagates", res.kind == "nil"))
            return goals
        x, y = args
        goals.append(("is-an-operand", res.raw is x.raw or res.raw is y.raw))
        if is_q(res):
            if op == "min":
                goals.append(("least", AND(O.qle(res.A, x.A), O.qle(res.A, y.A))))
            else:
                goals.append(("greatest", AND(O.qle(x.A, res.A), O.qle(y.A, res.A))))
        else:
            goals.append(("non-nil", False))
        return goals
    if op == "clamp":
        if anynil:
            goals.append(("nil-propagates", res.kind == "nil"))
            return goals
        x, lo, hi = args
        goals.append(("is-an-operand", res.raw is x.raw or res.raw is lo.raw or res.raw is hi.raw))
        if is_q(res):
            proper = O.qle(lo.A, hi.A)
            goals.append(("within-range", IMPL(proper, AND(O.qle(lo.A, res.A), O.qle(res.A, hi.A)))))
            goals.append(("identity-inside", IMPL(AND(O.qle(lo.A, x.A), O.qle(x.A, hi.A)), O.qeq(res.A, x.A))))
            goals.append(("below->lo", IMPL(O.qlt(x.A, lo.A), O.qeq(res.A, lo.A))))
            goals.append(("above->hi", IMPL(AND(NOT(O.qlt(x.A, lo.A)), O.qlt(hi.A, x.A)), O.qeq(res.A, hi.A))))
        else:
            goals.append(("non-nil", False))
        return goals
    if op in ("to_int", "floor", "ceil", "round"):
        x, = args
        if anynil:
            goals.append(("nil-propagates", res.kind == "nil"))
            return goals
        goals.append(("is-int", res.kind == "int"))
        if res.kind == "int":
            t = res.A[0]
            m, d = x.A
            if op == "floor":
                goals.append(("floor", AND(t * d <= m, m < (t + 1) * d)))
            elif op == "ceil":
                goals.append(("ceil", AND((t - 1) * d < m, m <= t * d)))
            elif op == "to_int":
                goals.append(("trunc", AND(IMPL(m >= 0, AND(t * d <= m, m < (t + 1) * d)),
                                           IMPL(m < 0, AND((t - 1) * d < m, m <= t * d)))))
            else:
                # nearest, halves away from zero: |2(m - t d)| <= d, and on a tie |t| > |m/d|
                diff = m - t * d
                goals.append(("nearest", AND(2 * ABS(diff) <= d,
                                             IMPL(2 * ABS(diff) == d, ABS(t) * d > ABS(m)))))
        return goals
    if op == "sqrt":
        x, = args
        if anynil:
            goals.append(("nil-propagates", res.kind == "nil"))
            return goals
        p_, q_ = x.A
        if res.kind == "nil":
            goals.append(("nil-only-for-negative", p_ < 0))
            return goals
        goals.append(("negative-gives-nil", p_ >= 0))
        if res.kind in ("int", "rat"):
            r0, r1 = res.A
            goals.append(("exact-square", r0 * r0 * q_ == p_ * r1 * r1))
            goals.append(("non-negative", r0 >= 0))
            goals.append(("canonical", O.canonical(res)))
            if res.kind == "rat":
                goals.append(("lowered", r1 != 1))
        elif res.kind == "surd":
            b0, b1 = res.B
            goals.append(("pure-radical", res.A[0] == 0))
            goals.append(("exact-square", b0 * b0 * res.n * q_ == p_ * b1 * b1))
            goals.append(("non-negative", b0 > 0))
            goals.append(("canonical", O.canonical(res)))
        else:
            goals.append(("is-a-number", False))
        return goals
    if op in ("numer", "denom"):
        x, = args
        if anynil:
            goals.append(("nil-propagates", res.kind == "nil"))
            return goals
        goals.append(("is-int", res.kind == "int"))
        if res.kind == "int":
            goals.append(("component", res.A[0] == (x.A[0] if op == "numer" else x.A[1])))
        return goals
    return None



# ------------------------------------------------------------------------------------------------
# surd fragment: values A + B·√n in the formal ring Q[√n] (√n·√n = n).  All identities are
# cross-multiplied polynomial facts over ℤ; the order relation uses the sign of a + b·√n decided
# by squares (no reals): it is the mathematical definition for √n > 0, not a restatement of the
# module's code.

def pure(x):
    return x.kind in ("int", "rat")


def coeffs(x):
    """(A, B) of a non-nil number; pure numbers have B = 0"""
    return x.A, (x.B if x.kind == "surd" else (0, 1))


def qsign(q):
    return SIGN(q[0])      # denominators are positive


def sgn_surd(a, b, n):
    """sign of a + b·√n for rationals a, b (positive denominators) and integer n > 0"""
    sa, sb = qsign(a), qsign(b)
    a2 = a[0] * a[0] * b[1] * b[1]           # a² vs b²·n, cross-multiplied by (ad·bd)²
    b2n = b[0] * b[0] * n * a[1] * a[1]
    return ITE(sb == 0, sa,
               ITE(sa == 0, sb,
                   ITE(sa == sb, sa,
                       ITE(a2 > b2n, sa, ITE(a2 < b2n, sb, 0)))))


def radical_of(x, y):
    """(compatible, n) for two non-nil operands at least one of which is a surd"""
    if x.kind == "surd" and y.kind == "surd":
        return (x.n == y.n), x.n
    if x.kind == "surd":
        return True, x.n
    return True, y.n


def surd_result_goals(goals, res, EA, EB, n, O):
    """res must denote EA + EB·√n in simplest form"""
    bzero = (EB[0] == 0)
    if res.kind == "surd":
        goals.append(("surd-only-when-needed", NOT(bzero)))
        goals.append(("radical", res.n == n))
        goals.append(("exact-rational-part", O.qeq(res.A, EA)))
        goals.append(("exact-surd-part", O.qeq(res.B, EB)))
        goals.append(("canonical", O.canonical(res)))
    elif res.kind in ("int", "rat"):
        goals.append(("collapses-only-when-surd-part-vanishes", bzero))
        goals.append(("exact", O.qeq(res.A, EA)))
        goals.append(("canonical", O.canonical(res)))
        if res.kind == "rat":
            goals.append(("lowered", res.A[1] != 1))
    else:
        goals.append(("is-a-number", False))


def spec_surd(op, args, res, O):
    goals = []
    if any(a.kind == "nil" for a in args):
        goals.append(("nil-propagates", res.kind == "nil"))
        return goals
    if op in ("numer", "denom"):
        goals.append(("nil-for-surd", res.kind == "nil"))
        return goals
    if op == "sqrt":
        goals.append(("nil-for-surd", res.kind == "nil"))
        return goals
    if op in ("add", "sub", "mul", "div"):
        x, y = args
        compat, n = radical_of(x, y)
        (A1, B1), (A2, B2) = coeffs(x), coeffs(y)
        if op == "div":
            # norm of the divisor: A2² − B2²·n
            D = O.qsub(O.qmul(A2, A2), O.qmul(O.qmul(B2, B2), (n, 1)))
            dzero = (D[0] == 0)
            if res.kind == "nil":
                goals.append(("nil-only-for-mixed-radicals-or-zero-divisor", OR(NOT(compat), dzero)))
                return goals
            goals.append(("mixed-radicals-give-nil", compat))
            goals.append(("zero-divisor-gives-nil", NOT(dzero)))
            # res · y = x in Q[√n]
            RA, RB = coeffs(res)
            if res.kind == "surd":
                goals.append(("radical", res.n == n))
            PA = O.qadd(O.qmul(RA, A2), O.qmul(O.qmul(RB, B2), (n, 1)))
            PB = O.qadd(O.qmul(RA, B2), O.qmul(RB, A2))
            goals.append(("exact-rational-part", O.qeq(PA, A1)))
            goals.append(("exact-surd-part", O.qeq(PB, B1)))
            goals.append(("canonical", O.canonical(res)))
            if res.kind == "surd":
                goals.append(("lowered", O.lowered(res)))
            return goals
        if res.kind == "nil":
            goals.append(("nil-only-for-mixed-radicals", NOT(compat)))
            return goals
        goals.append(("mixed-radicals-give-nil", compat))
        if op == "add":
            EA, EB = O.qadd(A1, A2), O.qadd(B1, B2)
        elif op == "sub":
            EA, EB = O.qsub(A1, A2), O.qsub(B1, B2)
        else:
            EA = O.qadd(O.qmul(A1, A2), O.qmul(O.qmul(B1, B2), (n, 1)))
            EB = O.qadd(O.qmul(A1, B2), O.qmul(A2, B1))
        surd_result_goals(goals, res, EA, EB, n, O)
        return goals
    if op == "neg":
        x, = args
        goals.append(("kind-preserved", res.kind == "surd"))
        if res.kind == "surd":
            goals.append(("radical", res.n == x.n))
            goals.append(("exact", AND(O.qeq(res.A, O.qneg(x.A)), O.qeq(res.B, O.qneg(x.B)))))
            goals.append(("canonical", O.canonical(res)))
        return goals
    if op == "abs":
        x, = args
        goals.append(("kind-preserved", res.kind == "surd"))
        if res.kind == "surd":
            s = sgn_surd(x.A, x.B, x.n)
            goals.append(("radical", res.n == x.n))
            goals.append(("exact", AND(IMPL(s == -1, AND(O.qeq(res.A, O.qneg(x.A)), O.qeq(res.B, O.qneg(x.B)))),
                                       IMPL(s != -1, AND(O.qeq(res.A, x.A), O.qeq(res.B, x.B))))))
            goals.append(("canonical", O.canonical(res)))
        return goals
    if op in ("compare", "sign", "eq?", "lt?", "le?", "gt?", "ge?", "min", "max"):
        x = args[0]
        y = args[1] if op != "sign" else Num("int", A=(0, 1), B=(0, 1), n=1)
        if op == "sign":
            compat, n = True, x.n
        else:
            compat, n = radical_of(x, y)
        (A1, B1), (A2, B2) = coeffs(x), coeffs(y)
        s = sgn_surd(O.qsub(A1, A2), O.qsub(B1, B2), n)
        if op in ("compare", "sign"):
            if res.kind == "nil":
                goals.append(("nil-only-for-mixed-radicals", NOT(compat)))
                return goals
            goals.append(("mixed-radicals-give-nil", compat))
            goals.append(("is-int", res.kind == "int"))
            if res.kind == "int":
                goals.append(("sign-of-difference", res.A[0] == s))
            return goals
        if op in ("min", "max"):
            if res.kind == "nil":
                goals.append(("nil-only-for-mixed-radicals", NOT(compat)))
                return goals
            goals.append(("is-an-operand", res.raw is x.raw or res.raw is y.raw))
            if res.raw is x.raw:
                goals.append(("extremal", IMPL(compat, (s <= 0) if op == "min" else (s >= 0))))
            elif res.raw is y.raw:
                goals.append(("extremal", IMPL(compat, (s >= 0) if op == "min" else (s <= 0))))
            return goals
        holds = {"eq?": s == 0, "lt?": s == -1, "le?": s <= 0, "gt?": s == 1, "ge?": s >= 0}[op]
        isok = isinstance(res.raw, VTuple) and res.raw.tid == 1
        goals.append(("ok-or-nil", isok or res.kind == "nil"))
        goals.append(("verdict", AND(compat, holds) if isok else NOT(AND(compat, holds))))
        return goals
    return None

# ------------------------------------------------------------------------------------------------

RAT_OPS_QUICK = ["add", "sub", "mul", "div", "neg", "abs", "sign", "eq?", "lt?", "le?", "gt?", "ge?",
                 "min", "max", "to_int", "floor", "ceil", "numer", "denom", "sqrt"]
RAT_OPS_THOROUGH = RAT_OPS_QUICK + ["clamp", "round"]


SURD_OPS = ["add", "sub", "mul", "div", "neg", "abs", "sign", "eq?", "lt?", "le?", "gt?", "ge?", "min", "max",
            "numer", "denom", "sqrt"]


def quick_surd_shape(prog, op, shape, kinds):
    """quick tier: surds with integer coefficients only, against int / rational / the same kind"""
    def int_coeffs(sh):
        return sh[0] == "tuple" and prog.tuples[sh[1]][0] == "Surd" and all(x[0] == "int" for x in sh[2])
    parts = shape[2] if op in BINARY_OPS else [shape]
    for sh, k in zip(parts, kinds):
        if k == "surd" and not int_coeffs(sh):
            return False
        if k == "nil":
            return False
    if op == "div":
        return kinds[0] == "surd" and kinds[1] in ("int", "rat")
    return op in ("add", "sub", "mul", "neg", "sign", "lt?", "numer")


BINARY_OPS = ("add", "sub", "mul", "div", "eq?", "lt?", "le?", "gt?", "ge?", "min", "max", "clamp")


def shape_kinds(prog, shape):
    """classify an operand shape: 'nil' | 'int' | 'rat' | 'surd'"""
    if shape[0] == "int":
        return "int"
    if shape[0] == "tuple":
        name = prog.tuples[shape[1]][0]
        if name is None and not shape[2]:
            return "nil"
        if name == "Rational":
            return "rat"
        if name == "Surd":
            return "surd"
    return "other"


def is_soft(op, opers, goal_name):
    """Exactness of division by a surd is a degree-6 polynomial identity through four gcd
    reductions; z3's non-linear arithmetic does not decide it reliably.  It is attempted, and
    reported as undecided when the solver gives up."""
    if op == "sqrt" and any(x.kind == "rat" for x in opers) and goal_name == "exact-square":
        return True
    if op == "div" and any(x.kind == "surd" for x in opers):
        if goal_name.startswith("exact"):
            return True
        # a surd divisor: every goal goes through the norm A² − B²·n and its gcd reductions
        if opers[1].kind == "surd":
            return True
    # comparing a surd: the sign of q − a − b·√n is decided by squaring; z3 usually answers in a
    # second, but the same query occasionally runs past any limit (observed: once in about five
    # runs beyond 300 s).  Attempted with a 20 s limit; `unknown` is counted as undecided.
    if op in CMP_OPS and any(x.kind == "surd" for x in opers):
        return True
    return False


CMP_OPS = ("lt?", "le?", "gt?", "ge?", "eq?", "min", "max", "clamp", "compare", "sign")


class Job:
    def __init__(self, op, shape_idx):
        self.op = op
        self.shape_idx = shape_idx


def load(qv):
    c = qv.compile("%num")
    if not c.get("ok"):
        raise RuntimeError("cannot compile %%num: %r" % (c,))
    prog = Program(c["bytecode"], c["compat"])
    r = qv.req(op="run", h=c["h"])
    if "value" not in r.get("result", {}):
        raise RuntimeError("cannot evaluate %%num: %r" % (r,))
    mod = value_from_json(r["result"]["value"])
    names = [f[0] for f in prog.tuples[mod.tid][1]]
    return c["h"], prog, dict(zip(names, mod.f))


def operand_shapes(prog, fn, depth=3):
    ptype = prog.types[prog.functions[fn.fid].type_id]["fn"]["parameter"]
    return shapes(prog, ptype, depth)


def operands_of(prog, op, argv):
    """split the argument value into its operand values"""
    if op in ("add", "sub", "mul", "div", "eq?", "lt?", "le?", "gt?", "ge?", "min", "max", "clamp"):
        return list(argv.f)
    return [argv]


def run_job(args):
    op, shape_idx, timeout_ms, want_surd = args[:4]
    deadline = args[4] if len(args) > 4 else None
    out = {"budget_soft": 0, "op": op, "shape": shape_idx, "goals": 0, "ok": 0, "fail": [], "inconclusive": [],
           "paths": 0, "instr": 0, "queries": 0, "solver_s": 0.0, "desc": "", "bound": 0,
           "validated": 0, "samples": []}
    if deadline is not None and time.time() > deadline + 600:
        out["not_run_after_budget"] = 1
        out["desc"] = "%s#%d" % (op, shape_idx)
        return out
    with QV() as qv:
        h, prog, fns = load(qv)
        fn = fns[op]
        shp = operand_shapes(prog, fn)[shape_idx]
        out["desc"] = "%s(%s)" % (op, describe(prog, shp))
        B = Builtins()
        solver = z3.Solver()
        O = Oracle(B)
        leaves = []
        arg = instantiate(shp, "x", "int", leaves)
        opers = [num_of(prog, v) for v in operands_of(prog, op, arg)]
        assumptions = [O.canonical(n) for n in opers]
        assumptions = [a for a in assumptions if a is not True]
        m = Machine(prog, B, solver=solver, max_steps=1500 if op == "sqrt" else 6000, max_paths=3000)

        # a reachability witness is a satisfiability query over non-linear arithmetic; when the
        # solver runs out of time on it the path's goals stay decided under the path condition but
        # their non-vacuity is not shown: counted (witness_unknown), not fatal
        P = Prover(solver, timeout_ms, soft_witness=True)
        P.witness_timeout_ms = 60000
        soft = {"n": 0}

        def prove(name, goal, o):
            over = deadline is not None and time.time() > deadline
            if over:
                out["budget_soft"] += 1
            if over or is_soft(op, opers, name):
                # attempted with a short time limit; `unknown` is recorded as undecided and is
                # outside the claim (never counted as discharged); `sat` is still replayed
                P.timeout_ms = 20000 if op in CMP_OPS else 4000
                n_inc = len(P.inconclusive)
                P.prove("%s %s" % (out["desc"], name), goal,
                        lambda sv: refine_and_replay(qv, h, prog, fn, op, arg, sv, B, leaves, o))
                P.timeout_ms = timeout_ms
                if len(P.inconclusive) > n_inc:
                    del P.inconclusive[n_inc:]
                    P.goals -= 1
                    soft["n"] += 1
                return
            before = P.ok
            P.prove("%s %s" % (out["desc"], name), goal,
                    lambda sv: refine_and_replay(qv, h, prog, fn, op, arg, sv, B, leaves, o))
            if P.ok > before and goal is not True and len(out["samples"]) < 2:
                out["samples"].append({"obligation": name, "case": out["desc"],
                                       "smt_assertions": len(solver.assertions()), "verdict": "unsat"})

        def on_outcome(o):
            if o.kind == "value":
                P.witness(out["desc"])
                res = num_of(prog, o.value)
                if any(x.kind == "surd" for x in opers):
                    goals = spec_surd(op, opers, res, O)
                else:
                    goals = spec(op, opers, res, O)
                if goals is None:
                    out["inconclusive"].append("%s: no spec" % out["desc"])
                    return
                for name, g in goals:
                    prove(name, g, o)
                prove("lowered", O.lowered(res), o)
            elif o.kind == "error":
                prove("no-runtime-error(%s)" % o.error, False, o)
            elif o.kind == "bound":
                out["bound"] += 1
                if op != "sqrt":
                    prove("loop-bound-not-needed", False, o)
                # sqrt: the trial-division loop is input dependent; paths needing more than the
                # unrolling bound are outside the claim (counted in `bounded_paths`)
            else:
                out["inconclusive"].append("%s: %s" % (out["desc"], o.detail))

        if deadline is not None:
            m.deadline = deadline + 900
        try:
            m.run(fn, arg, on_outcome, assumptions)
        except Unsupported as e:
            out["inconclusive"].append("%s: %s" % (out["desc"], e))
        except TimeBudget:
            out["not_run_after_budget"] = 1      # exploration of this shape stopped; outside the claim
        except StopJob:
            pass
        out["goals"] += P.goals
        out["ok"] += P.ok
        out["queries"] += P.queries
        out["solver_s"] += P.solver_s
        out["witnesses"] = P.witnesses
        out["witness_unknown"] = getattr(P, "witness_unknown", 0)
        out["undecided_soft"] = soft["n"]
        if deadline is not None:
            # thorough tier: a goal the solver gives up on within its time limit is counted as
            # undecided (outside the claim of this run), never as discharged
            gave_up = [x for x in P.inconclusive if ": solver " in x]
            wit_unknown = [x for x in P.inconclusive if "reachability witness unknown" in x]
            out["undecided_soft"] += len(gave_up) + len(wit_unknown)
            out["goals"] -= len(gave_up)            # witnesses were never counted as goals
            P.inconclusive = [x for x in P.inconclusive if x not in gave_up and x not in wit_unknown]
        out["inconclusive"].extend(P.inconclusive)
        for f in P.failures:
            out["fail"].append({"goal": f["goal"], "case": out["desc"], "cex": f["cex"]})
        out["paths"] = m.stats.paths
        out["instr"] = m.stats.instructions
        out["queries"] += m.stats.feas_queries
        out["solver_s"] += m.stats.solver_s
        out["feas_unknown"] = m.stats.feas_unknown
    return out


# ------------------------------------------------------------------------------------------------
# counterexample handling

def concrete_judgement(prog, op, arg_json, res_json):
    """Evaluate the same spec on Python ints.  Returns list of failed goal names, or None if the
    input is not a canonical operand tuple (not a counterexample)."""
    O = Oracle(None)
    arg = value_from_json(arg_json)
    opers = [num_of(prog, v) for v in operands_of(prog, op, arg)]
    if not all(O.canonical(n) is True for n in opers):
        return None
    failed = []
    if "error" in res_json:
        return ["no-runtime-error(%s)" % res_json["error"]["kind"]]
    if "value" not in res_json:
        return ["no-result(%s)" % json.dumps(res_json)[:80]]
    resv = value_from_json(res_json["value"])
    # structural identity for min/max/clamp is judged by structural equality natively
    res = num_of(prog, resv)
    opers2 = opers
    if op in ("min", "max", "clamp"):
        for n in opers:
            if json.dumps(value_to_json(n.raw)) == json.dumps(res_json["value"]):
                res.raw = n.raw
                break
    if any(x.kind == "surd" for x in opers2):
        goals = spec_surd(op, opers2, res, O)
    else:
        goals = spec(op, opers2, res, O)
    for name, g in goals or []:
        if g is not True:
            failed.append(name)
    if O.lowered(res) is not True:
        failed.append("lowered")
    return failed


def refine_and_replay(qv, h, prog, fn, op, arg, solver, B, leaves, o, rounds=25):
    """The solver said `sat`.  Make the model arithmetically real (true gcd / coprime facts for the
    values it picked), then run the real executor on the concrete argument."""
    for _ in range(rounds):
        if solver.check() != z3.sat:
            return None
        mdl = solver.model()
        fixed = False
        # true gcd facts
        for (g, a, b, x1, y1) in B.gcd_terms:
            av = mdl.eval(a, model_completion=True).as_long()
            bv = mdl.eval(b, model_completion=True).as_long()
            gv = mdl.eval(g, model_completion=True).as_long()
            if math.gcd(av, bv) != gv:
                solver.add(z3.Implies(z3.And(a == av, b == bv), g == math.gcd(av, bv)))
                fixed = True
        # true coprime facts for the inputs
        argj = value_to_json(arg, mdl)
        argv = value_from_json(argj)
        for n in [num_of(prog, v) for v in operands_of(prog, op, argv)]:
            for q in ([n.A, n.B] if n.kind == "surd" else [n.A] if n.kind == "rat" else []):
                if q[1] != 0 and math.gcd(q[0], q[1]) != 1:
                    solver.add(B.coprime(z3.IntVal(abs(q[0])), z3.IntVal(abs(q[1]))) == False)  # noqa: E712
                    fixed = True
        if fixed:
            continue
        r = qv.req(op="apply", h=h, func=value_to_json(fn), arg=argj, max_steps=2_000_000)
        failed = concrete_judgement(prog, op, argj, r.get("result", {}))
        if failed:
            return {"arg": argj, "result": r.get("result"), "failed": failed, "op": op}
        # reproduced nothing: block this input and look for another model
        solver.add(z3.Or(*[v != mdl.eval(v, model_completion=True) for _, v in leaves]) if leaves else z3.BoolVal(False))
    return None


# ------------------------------------------------------------------------------------------------

def main():
    rep = Report(PROP)
    t = rep.tier
    timeout_ms = 300000
    # thorough: after 40 minutes of wall time the remaining obligations are only attempted with
    # the 4 s limit of the soft ones; what stays undecided is counted (undecided_after_budget) and
    # is outside the claim of that run
    deadline = None if t == "quick" else time.time() + 2400
    with QV() as qv:
        h, prog, fns = load(qv)
        ops = RAT_OPS_QUICK if t == "quick" else RAT_OPS_THOROUGH
        jobs = []
        for op in ops:
            if op not in fns:
                rep.inconc("operation %s missing from %%num" % op)
                continue
            shp = operand_shapes(prog, fns[op])
            for i, s in enumerate(shp):
                ks = [shape_kinds(prog, x) for x in (s[2] if op in ("add", "sub", "mul", "div", "eq?", "lt?", "le?", "gt?", "ge?", "min", "max", "clamp") else [s])]
                if "other" in ks:
                    continue
                if op == "sqrt" and t == "quick" and "rat" in ks:
                    continue   # thorough only: 800 s of non-linear reasoning
                if "surd" in ks:
                    if op not in SURD_OPS:
                        continue
                    if t == "quick" and not quick_surd_shape(prog, op, s, ks):
                        continue
                jobs.append((op, i, timeout_ms, False, deadline))
            rep.functions.append("%%num.%s (fn %d) + callees" % (op, fns[op].fid))
    import multiprocessing as mp
    with mp.Pool(min(16, max(1, len(jobs)))) as pool:
        results = pool.map(run_job, jobs, chunksize=1)
    for r in results:
        rep.states += r["paths"]
        rep.transitions += r["instr"]
        rep.queries += r["queries"]
        rep.solver_s += r["solver_s"]
        rep.obligations += r["goals"]
        rep.discharged += r["ok"]
        rep.extra["vacuity_witnesses_sat"] = rep.extra.get("vacuity_witnesses_sat", 0) + r.get("witnesses", 0)
        rep.extra["bounded_paths"] = rep.extra.get("bounded_paths", 0) + r.get("bound", 0)
        rep.extra["vacuity_witnesses_unknown"] = rep.extra.get("vacuity_witnesses_unknown", 0) + r.get("witness_unknown", 0)
        rep.extra["undecided_soft_obligations"] = rep.extra.get("undecided_soft_obligations", 0) + r.get("undecided_soft", 0)
        rep.extra["attempted_after_budget"] = rep.extra.get("attempted_after_budget", 0) + r.get("budget_soft", 0)
        rep.extra["jobs_not_run_after_budget"] = rep.extra.get("jobs_not_run_after_budget", 0) + r.get("not_run_after_budget", 0)
        rep.extra.setdefault("job_seconds", []).append([r["desc"], round(r["solver_s"], 1)])
        for s in r["samples"]:
            rep.sample(s)
        for f in r["fail"]:
            rep.obligations -= 1
            key = "%s:%s" % (f["case"], f["goal"])
            rep.violation(key, "%%num.%s violates '%s' on %s -> %s" % (
                f["cex"]["op"], ",".join(f["cex"]["failed"]), json.dumps(f["cex"]["arg"])[:300],
                json.dumps(f["cex"]["result"])[:300]), f["cex"])
        for inc in r["inconclusive"]:
            rep.obligations -= 1
            rep.inconc(inc)
    rep.extra["job_seconds"] = sorted(rep.extra.get("job_seconds", []), key=lambda x: -x[1])[:15]
    rep.bounds = {"integer magnitudes": "unbounded (z3 Int)", "operand shapes": "all nil/int/Rational combinations per operation",
                  "step bound per path": 6000}
    rep.assumptions = [
        "input rationals are canonical (d > 0, coprime(n, d)); coprime is an uninterpreted predicate closed under sign",
        "integer_gcd modelled by fresh g with cofactors x = g*x1, y = g*y1, coprime(x1, y1); x / gcd(x, y) = x1",
        "integer_divide/modulo modelled by fresh q, r with a = b*q + r, |r| < |b|, sign(r) = sign(a)",
        "num-bigint arithmetic itself is exact (checked only up to 64-bit operands by C12)",
    ]
    rc = rep.finish(
        rule="one obligation = one (operation, operand shape, path, goal); non-trivial = goal not syntactically true",
        trusted=["sqvm/machine.py instruction semantics (validated against the real executor)",
                 "sqvm/builtins.py integer models", "z3 %s" % z3.get_version_string()])
    sys.exit(rc)


if __name__ == "__main__":
    main()
