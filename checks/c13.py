#!/usr/bin/env python3-vt
"""C13 — equality and refs: the ref-uniqueness clause (E2, Kani on the real create_ref)."""
import os, sys
sys.path.insert(0, os.path.dirname(os.path.dirname(os.path.abspath(__file__))))
from checks.common import Report
from checks.kani_check import run_kani_property, VERIF

rep = Report("C13")
harness = "".join(open(os.path.join(VERIF, "kani", f)).read() for f in ("executor_preamble.rs", "c13_harness.rs")) + "}\n"
run_kani_property(rep, "quiver-core", {"src/executor.rs": harness}, [
    {"name": "c13_ref_injective", "what": "refs from (worker, counter) pairs are equal iff same minting; counter strictly increases",
     "need_cover": ["equal refs reachable (same minting)", "distinct refs reachable"]},
    {"name": "c13_ref_consecutive_distinct", "what": "two consecutive mintings on one worker differ; the counter advances by one per minting"},
])
rep.bounds = {"worker id": "all u16", "counter": "< 2^48 mintings per worker (beyond it the counter reaches the worker bits: outside the claim)"}
rep.assumptions = [
    "stub: std::hash::RandomState::new -> constant keys (OS randomness is not modelled by CBMC)",
    "decides only the ref-uniqueness clause; structural equality (values_equal) owns Values/ropes and is outside Kani's reach (DESIGN §2)",
]
sys.exit(rep.finish(
    rule="one obligation = one Kani harness over all values of its symbolic inputs; states = harnesses, transitions = CBMC property checks",
    trusted=["Kani 0.68 / CBMC 6.11 (CaDiCaL)", "the appended harness modules kani/executor_preamble.rs + kani/c13_harness.rs"]))
