#!/usr/bin/env python3-vt
"""C10 — packaging steps preserve behaviour, decided for programs WITH INPUTS (E1, equivalence).

A closed program leaves nothing for a solver to quantify over, but a program that evaluates to a
*function* does: its argument.  For each function-valued corpus program P the real packaging steps
are applied by the real code — `tree_shake`, a JSON write/read round trip, and
`Environment::merge_bytecode` after two other programs have been merged — and the function value
each variant evaluates to is compared with the original **for every argument**: both are executed
symbolically on the same symbolic argument (all constructor shapes of the declared parameter type,
integer leaves unbounded), and for every pair of compatible paths the solver must show the two
outcomes equal (same error kind, or structurally equal values — tuples compared by name and field
labels, since ids differ between the id spaces).  A model is replayed by applying both real
function values to the concrete argument on the real executor.
"""
import json
import multiprocessing as mp
import os
import random
import sys
import time

sys.path.insert(0, os.path.dirname(os.path.dirname(os.path.abspath(__file__))))
import z3
from checks.common import Report
from sqvm.qv import QV
from sqvm.machine import (TimeBudget, Program, Machine, VInt, VBin, VTuple, VFn, VBuiltin, value_from_json,
                          value_to_json, Unsupported, Atom, conj)
from sqvm.builtins import Builtins
from sqvm.shapes import shapes, instantiate, describe, has_opaque, ShapeError
from sqvm.gen_calls import programs as gen_call_programs

PROP = "C10"


TYPE_SHIFT = "x = Foo[0x00, Bar[7], Baz[Qux, 0x01]], #'bin { [x, ~] }"


def gen_functions():
    """small function-valued programs that differ only in constants / structure, so that functions
    of different programs coincide number for number while denoting different things"""
    out = []
    for k in (1, 2, 10, 20):
        out.append(("gen_fn/add/%d" % k, "#'int { [~, %d] __integer_add__ }" % k))
        out.append(("gen_fn/const/%d" % k, "#{ %d }" % k))
        out.append(("gen_fn/branch/%d" % k, "#'int { | =%d => A[1] | =n => B[n, %d] }" % (k, k + 1)))
        out.append(("gen_fn/closure/%d" % k, "k = %d, #'int { [~, k] __integer_multiply__ }" % k))
        out.append(("gen_fn/helper/%d" % k, "base = #'int { [~, %d] __integer_multiply__ }, #'int { $ base [~, 1] __integer_add__ }" % k))
        out.append(("gen_fn/pair/%d" % k, "#['int, 'int] { =[a, b], [[a, %d] __integer_multiply__, b] __integer_add__ }" % k))
        out.append(("gen_fn/tuple/%d" % k, "#'int { P[x: ~, y: %d] }" % k))
        out.append(("gen_fn/bin/%d" % k, "#'int { | =%d => 0x%02x | 0x00 }" % (k, k)))
        # binary constants that are not valid UTF-8, and a string that is
        out.append(("gen_fn/bin_high/%d" % k, "#'int { | =%d => 0x%02x504e47 | =0 => \"h\u00e9llo\" | 0xff80 }" % (k, 0x80 + k)))
    # partial-type patterns over values built inside the function (Ok / nil / user tuples): the
    # type-compatibility tables of the packaged program must still answer the same
    vals = ["Ok", "[]", "A", "A[1]", "P[x: 1]", "[1, 2]", "Ok[1]"]
    pats = ["()", "Ok()", "A()", "(x: 'int)", "P(x: 'int)", "('int)"]
    for vi, v in enumerate(vals):
        for ti, t in enumerate(pats):
            out.append(("gen_fn/partial_helper/%d_%d" % (vi, ti),
                        "kind = #('int | %s) { | =%s => 1 | ='int => 0 }, #'int { | =0 => { %s kind } | =n => { n kind } }" % (t, t, v)))
            out.append(("gen_fn/partial_flow/%d_%d" % (vi, ti),
                        "#'int { { | =0 => %s | =n => n } { | =%s => 1 | 0 } }" % (v, t)))
            out.append(("gen_fn/partial_direct/%d_%d" % (vi, ti),
                        "#'int { =n, %s { | =%s => n | 0 } }" % (v, t)))
    # builtin values under a run-time type test: the packaged program's builtin signatures decide
    # whether the test accepts them
    for k, (b1, b2) in enumerate((("__integer_and__", "__integer_add__"), ("__integer_multiply__", "__integer_subtract__"),
                                  ("__integer_or__", "__integer_xor__"), ("__integer_gcd__", "__integer_modulo__"))):
        out.append(("gen_fn/builtin_value/%d" % k,
                    "pick = #'int { | =0 => &%s | =1 => &%s | 5 }, #'int { $ pick { | =(#['int, 'int] -> 'int)f => [12, 10] f | 99 } }" % (b1, b2)))
        out.append(("gen_fn/builtin_value_unary/%d" % k,
                    "pick = #'int { | =0 => &%s | =1 => &__integer_abs__ | 5 }, #'int { $ pick { | =(#'int -> 'int)f => 12 f | =(#['int, 'int] -> 'int)g => [12, 10] g | 99 } }" % b1))
    for m in ("add", "mul", "div", "lt?", "min"):
        out.append(("std/num." + m, "#['%%num.opt, '%%num.opt] { %%num.%s }" % m))
    for m in ("neg", "floor", "abs", "sign"):
        out.append(("std/num." + m, "#'%%num.opt { %%num.%s }" % m))
    for m in ("div", "mod"):
        out.append(("std/int." + m, "#['int, 'int] { %%int.%s }" % m))
    return out


def tuple_sig(prog, tid):
    name, fields = prog.tuples[tid]
    return (name, tuple(l for l, _ in fields))


def values_equal_across(pa, a, pb, b, B):
    """structural equality of a value of program pa and a value of program pb (ids differ)"""
    if isinstance(a, VInt) and isinstance(b, VInt):
        return B.int_eq(a.v, b.v)
    if isinstance(a, VBin) and isinstance(b, VBin):
        return B.bin_eq(a.b, b.b)
    if isinstance(a, VTuple) and isinstance(b, VTuple):
        if tuple_sig(pa, a.tid) != tuple_sig(pb, b.tid) or len(a.f) != len(b.f):
            return False
        return conj([values_equal_across(pa, x, pb, y, B) for x, y in zip(a.f, b.f)])
    if isinstance(a, VFn) and isinstance(b, VFn):
        return len(a.caps) == len(b.caps)     # function identity is not comparable across id spaces
    if isinstance(a, VBuiltin) and isinstance(b, VBuiltin):
        return pa.builtins[a.bid] == pb.builtins[b.bid]
    return False


def json_equal_across(pa, a, pb, b):
    if a["t"] != b["t"]:
        return False
    if a["t"] in ("int", "bin", "ref"):
        return a["v"] == b["v"]
    if a["t"] == "tuple":
        return tuple_sig(pa, a["id"]) == tuple_sig(pb, b["id"]) and len(a["v"]) == len(b["v"]) and \
            all(json_equal_across(pa, x, pb, y) for x, y in zip(a["v"], b["v"]))
    if a["t"] == "fn":
        return len(a["v"]) == len(b["v"])
    if a["t"] == "builtin":
        return pa.builtins[a["id"]] == pb.builtins[b["id"]]
    return True


def fn_param(prog, fn):
    t = prog.types[prog.functions[fn.fid].type_id]
    return t["fn"]["parameter"] if isinstance(t, dict) and "fn" in t else None


def explore(prog, fn, arg, solver, B, budget_s):
    outs = []
    m = Machine(prog, B, solver=solver, max_steps=1500, max_paths=200, feas_timeout_ms=2000)
    m.deadline = time.time() + budget_s
    m.run(fn, arg, outs.append, [])
    return outs, m.stats


def check_program(args):
    name, src, others, timeout_ms, budget_s = args
    out = {"name": name, "ok": False, "goals": 0, "discharged": 0, "fail": [], "inconclusive": [], "paths": 0,
           "instr": 0, "queries": 0, "solver_s": 0.0, "variants": 0, "samples": [], "skipped": "", "serde_same": None}
    with QV() as qv:
        c = qv.compile(src)
        if not c.get("ok"):
            out["skipped"] = "rejected by the compiler"
            return out
        P = Program(c["bytecode"], c["compat"])
        r = qv.req(op="run", h=c["h"], max_steps=3_000_000)
        if "value" not in r.get("result", {}):
            out["skipped"] = "does not evaluate"
            return out
        V = value_from_json(r["result"]["value"])
        if not isinstance(V, VFn):
            out["skipped"] = "not a function"
            return out
        pt = fn_param(P, V)
        try:
            shp = [s for s in shapes(P, pt, 3, limit=2000) if not has_opaque(s)][:12]
        except (ShapeError, TypeError):
            shp = []
        if not shp:
            out["skipped"] = "no ground parameter shapes"
            return out
        out["ok"] = True
        variants = []
        ts = qv.req(op="tree_shake", h=c["h"])
        if ts.get("ok"):
            variants.append(("tree_shaken", ts["h"], Program(ts["bytecode"], ts["compat"])))
        else:
            out["inconclusive"].append("%s: tree_shake failed" % name)
        sr = qv.req(op="serde_roundtrip", h=c["h"])
        out["serde_same"] = sr.get("same")
        if sr.get("ok"):
            d = qv.req(op="dump", h=sr["h"])
            variants.append(("json_round_trip", sr["h"], Program(d["bytecode"], d["compat"])))
        hs = []
        for osrc in others:
            oc = qv.compile(osrc, dump=False)
            if oc.get("ok"):
                hs.append(oc["h"])
        mg = qv.req(op="merge", hs=hs + [c["h"]])
        if mg.get("ok") and mg.get("entries") and mg["entries"][-1] is not None:
            qv.req(op="set_entry", h=mg["h"], entry=mg["entries"][-1])
            variants.append(("merged_after_%d_programs" % len(hs), mg["h"], Program(mg["bytecode"], mg["compat"])))
        else:
            out["inconclusive"].append("%s: merge failed %r" % (name, str(mg)[:100]))
        for vname, vh, VP in variants:
            rv = qv.req(op="run", h=vh, max_steps=3_000_000)
            if "value" not in rv.get("result", {}):
                out["fail"].append({"variant": vname, "why": "the packaged program no longer evaluates: %s" % json.dumps(rv.get("result"))[:200],
                                    "source": src, "others": others})
                continue
            VV = value_from_json(rv["result"]["value"])
            if not isinstance(VV, VFn):
                out["fail"].append({"variant": vname, "why": "the packaged program no longer evaluates to a function", "source": src, "others": others})
                continue
            out["variants"] += 1
            vpt = fn_param(VP, VV)
            try:
                vshp = {describe(VP, s): s for s in shapes(VP, vpt, 3, limit=2000) if not has_opaque(s)}
            except (ShapeError, TypeError):
                vshp = {}
            for s in shp:
                d = describe(P, s)
                if d not in vshp:
                    out["fail"].append({"variant": vname, "why": "parameter shape %s is no longer in the packaged function's parameter type" % d,
                                        "source": src, "others": others})
                    continue
                B = Builtins()
                solver = z3.Solver()
                la, lb = [], []
                arg_a = instantiate(s, "x", "int", la)
                arg_b = instantiate(vshp[d], "x", "int", lb)
                try:
                    oa, sa = explore(P, V, arg_a, solver, B, budget_s)
                    ob, sb = explore(VP, VV, arg_b, solver, B, budget_s)
                except (Unsupported, TimeBudget):
                    continue
                out["paths"] += len(oa) + len(ob)
                out["instr"] += sa.instructions + sb.instructions
                out["queries"] += sa.feas_queries + sb.feas_queries
                for a in oa:
                    for b in ob:
                        if a.kind in ("unsupported", "bound") or b.kind in ("unsupported", "bound"):
                            continue
                        out["goals"] += 1
                        if a.kind != b.kind:
                            same = False
                        elif a.kind == "error":
                            same = (a.error == b.error)
                        else:
                            try:
                                same = values_equal_across(P, a.value, VP, b.value, B)
                            except Unsupported:
                                out["goals"] -= 1
                                continue
                        t0 = time.time()
                        solver.push()
                        for cnd in a.path + b.path:
                            solver.add(cnd)
                        if same is not False and same is not True:
                            solver.add(z3.Not(same))
                        solver.set("timeout", timeout_ms)
                        res = z3.unsat if same is True else solver.check()
                        out["queries"] += 1
                        if res == z3.unsat:
                            out["discharged"] += 1
                        elif res == z3.sat:
                            mdl = solver.model()
                            try:
                                aj = value_to_json(arg_a, mdl)
                                bj = value_to_json(arg_b, mdl)
                                ra = qv.req(op="apply", h=c["h"], func=value_to_json(V), arg=aj).get("result", {})
                                rb = qv.req(op="apply", h=vh, func=value_to_json(VV), arg=bj).get("result", {})
                            except Unsupported:
                                ra = rb = {}
                            differ = False
                            if ("value" in ra) != ("value" in rb):
                                differ = True
                            elif "value" in ra:
                                differ = not json_equal_across(P, ra["value"], VP, rb["value"])
                            elif "error" in ra and "error" in rb:
                                differ = ra["error"]["kind"] != rb["error"]["kind"]
                            if differ:
                                out["fail"].append({"variant": vname, "source": src, "others": others, "arg": aj,
                                                    "original": ra, "packaged": rb,
                                                    "why": "results differ on %s: %s vs %s" % (
                                                        json.dumps(aj)[:120], json.dumps(ra)[:160], json.dumps(rb)[:160])})
                            else:
                                out["inconclusive"].append("%s [%s]: model did not reproduce natively" % (name, vname))
                        else:
                            out["inconclusive"].append("%s [%s]: solver unknown" % (name, vname))
                        solver.pop()
                        out["solver_s"] += time.time() - t0
                        if len(out["fail"]) >= 2:
                            return out
                if not out["samples"]:
                    out["samples"].append({"program": name, "variant": vname, "shape": d, "paths_original": len(oa),
                                           "paths_packaged": len(ob)})
    return out


def main():
    rep = Report(PROP, level="translation_validation")
    tier = rep.tier
    progs = gen_functions()
    gc = gen_call_programs()
    rnd = random.Random(rep.seed)
    if tier == "quick":
        gc = [g for g in gc if "/dispatch" in g["name"]]
        gc = rnd.sample(gc, min(40, len(gc)))
    progs += [(g["name"], g["src"]) for g in gc]
    srcs = [s for _, s in progs]
    jobs = []
    for i, (n, s) in enumerate(progs):
        # merge after two other programs: the previous generated sibling (same structure, other
        # constants) and a seeded other one
        sib = None
        if n.startswith("gen_fn/"):
            fam = n.rsplit("/", 1)[0]
            sibs = [s2 for (n2, s2) in progs if n2.startswith(fam + "/") and n2 != n]
            sib = sibs[rnd.randrange(len(sibs))] if sibs else None
        others = [sib or srcs[(i - 1) % len(srcs)], srcs[rnd.randrange(len(srcs))]]
        if i % 2 == 1:
            others.reverse()       # sibling merged first or second
        if n.startswith("gen_fn/builtin_value"):
            # merged after a program that registers tuples and types but no builtin: every type id
            # of this program shifts and every builtin it uses is new to the environment
            others = [TYPE_SHIFT]
        jobs.append((n, s, others, 20000, 6 if tier == "quick" else 20))
    with mp.Pool(16) as pool:
        results = pool.map(check_program, jobs, chunksize=1)
    n_prog = 0
    for r in results:
        if not r["ok"]:
            rep.extra.setdefault("skipped", {})
            rep.extra["skipped"][r["skipped"]] = rep.extra["skipped"].get(r["skipped"], 0) + 1
            continue
        n_prog += 1
        rep.states += r["paths"]
        rep.transitions += r["instr"]
        rep.queries += r["queries"]
        rep.solver_s += r["solver_s"]
        rep.obligations += r["goals"]
        rep.discharged += r["discharged"]
        rep.extra["variants_compared"] = rep.extra.get("variants_compared", 0) + r["variants"]
        if r["serde_same"] is False:
            rep.violation("%s:serde" % r["name"], "%s: Bytecode differs after a JSON round trip" % r["name"], {"source": r["name"]})
        for s in r["samples"]:
            rep.sample(s)
        for f in r["fail"]:
            rep.violation("%s:%s" % (r["name"], f["variant"]),
                          "`%s` behaves differently %s (merged after %s): %s" % (
                              f["source"][:160], f["variant"], [o[:60] for o in f.get("others", [])], f["why"][:400]), f)
        for inc in r["inconclusive"]:
            rep.inconc(inc)
    rep.extra["programs"] = n_prog
    rep.extra["disagreements_checked"] = rep.obligations
    rep.functions = ["%d function-valued programs x {tree_shake, JSON round trip, merge after two programs}" % n_prog]
    rep.bounds = {"programs": "generated small functions (8 families x 4 constants), std exports with ground parameters, generated generic call sites",
                  "arguments": "every constructor shape of the parameter type to depth 3 (first 12), integer leaves unbounded",
                  "merge histories": "one per program: after its sibling (same structure, different constants) and one seeded other program",
                  "not covered": "closed programs (no input to quantify over), the `%m` import path, longer merge histories, function-valued results (compared by arity only)"}
    rep.assumptions = ["SQVM semantics and builtin models (validated against the real executor)",
                       "values of the two id spaces are compared by tuple name + field labels"]
    sys.exit(rep.finish(
        rule="one obligation = one pair of paths (original, packaged) of one program variant on one parameter shape: outcomes equal under both path conditions",
        trusted=["sqvm/machine.py", "sqvm/builtins.py", "z3 %s" % z3.get_version_string()]))


if __name__ == "__main__":
    main()
