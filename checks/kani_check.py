"""Generic driver for properties decided by Kani harnesses (E2)."""
import json
import os
import re
import subprocess
import sys
import time
from concurrent.futures import ThreadPoolExecutor

sys.path.insert(0, os.path.dirname(os.path.dirname(os.path.abspath(__file__))))
from checks import kani_runner as K

VERIF = os.path.dirname(os.path.dirname(os.path.abspath(__file__)))


def playback(scratch, crate, harness, timeout_s=900):
    """Re-run a failing harness with concrete playback and execute the generated unit test
    natively (dev profile, which is what Kani models).  Returns (reproduced, text)."""
    env = dict(os.environ)
    env["CARGO_NET_OFFLINE"] = "true"
    env.pop("RUSTUP_TOOLCHAIN", None)
    # kani's in-place test generator resolves source paths relative to the workspace root
    cwd = scratch
    pkg = [] if crate in (".", "") else ["-p", crate]
    try:
        p = subprocess.run(["cargo", "kani"] + pkg + ["--harness", harness, "-Z", "stubbing", "-Z",
                            "concrete-playback", "--concrete-playback=inplace"], cwd=cwd, env=env,
                           stdout=subprocess.PIPE, stderr=subprocess.STDOUT, text=True, timeout=timeout_s)
        gen = p.stdout
        m = re.search(r"- (kani_concrete_playback_\w+)", gen)
        test = m.group(1) if m else "kani_concrete_playback"
        p2 = subprocess.run(["cargo", "kani", "playback"] + pkg + ["-Z", "concrete-playback", "--", test],
                            cwd=cwd, env=env, stdout=subprocess.PIPE, stderr=subprocess.STDOUT, text=True,
                            timeout=timeout_s)
        out = p2.stdout
        reproduced = ("test result: FAILED" in out) and ("1 failed" in out or "panicked at" in out)
        vals = []
        for root, _d, files in os.walk(os.path.join(scratch, crate, "src") if pkg else os.path.join(scratch, "src")):
            for fn_ in files:
                txt = open(os.path.join(root, fn_), errors="replace").read()
                k = txt.find("fn " + test)
                if k >= 0:
                    vals = re.findall(r"// (-?\d+)[a-z]*\n", txt[k:k + 4000])
        return reproduced, out[-3000:], vals
    except Exception as e:
        return False, repr(e), []


def run_kani_property(rep, crate, appends, harnesses, jobs=4):
    """harnesses: list of dicts {name, what, unwind?, timeout_s?, mem_gb?, need_cover?: [desc,...]}"""
    scratch = K.make_scratch(crate, appends)
    try:
        def one(hs):
            td = os.path.join(scratch, "target-" + hs["name"])
            return hs, K.run_harness(scratch, crate, hs["name"], timeout_s=hs.get("timeout_s", 900),
                                     mem_gb=hs.get("mem_gb", 12), unwind=hs.get("unwind"), target_dir=td)
        # the first run builds the crate; run one harness first, then the rest in parallel
        results = []
        if harnesses:
            results.append(one(harnesses[0]))
        with ThreadPoolExecutor(max_workers=jobs) as ex:
            results.extend(ex.map(one, harnesses[1:]))
        for hs, r in results:
            rep.queries += 1
            rep.solver_s += r.seconds
            rep.states += 1
            rep.transitions += max(r.checks, 1)
            rep.functions.append("%s (%s)" % (hs["name"], hs["what"]))
            if r.status == "success":
                missing = [d for d in hs.get("need_cover", []) if r.covers.get(d) != "SATISFIED"]
                if missing:
                    rep.inconc("%s: vacuity witness not reachable: %s" % (hs["name"], missing))
                else:
                    rep.ok()
                    rep.sample({"harness": hs["name"], "claim": hs["what"], "cbmc_checks": r.checks,
                                "covers": r.covers, "seconds": round(r.seconds, 1), "verdict": "SUCCESSFUL"})
            elif r.status == "failed":
                ok, text, vals = playback(scratch, crate, hs["name"])
                desc = "; ".join(d for _, d in r.failed_checks[:4])
                if ok:
                    rep.violation("kani:%s" % hs["name"],
                                  "Kani harness %s (%s) fails: %s; concrete values %s; reproduced natively by playback" % (
                                      hs["name"], hs["what"], desc, vals[:12]),
                                  {"harness": hs["name"], "failed_checks": r.failed_checks, "values": vals,
                                   "playback_tail": text[-1500:]})
                else:
                    rep.inconc("%s: CBMC counterexample (%s) did not reproduce natively" % (hs["name"], desc))
            else:
                rep.inconc("%s: %s after %.0fs" % (hs["name"], r.status, r.seconds))
                sys.stderr.write(r.log[-1500:] + "\n")
    finally:
        K.cleanup(scratch)
