"""Shared plumbing for the checks: tiers, evidence files, known findings, exit codes.

Exit codes: 0 = every obligation discharged (known findings are printed, not failed);
1 = a violation that was replayed against the real build (prints `VIOLATION property=.. replay=..`);
2 = inconclusive (solver unknown / time-out, non-reproducing model, engine disagreement).
"""
import json
import os
import sys
import time

VERIF = os.path.dirname(os.path.dirname(os.path.abspath(__file__)))
sys.path.insert(0, VERIF)

EVIDENCE_DIR = os.path.join(VERIF, "evidence")
REPLAY_DIR = os.path.join(VERIF, "replays")
KNOWN = os.path.join(VERIF, "known_findings.json")


def tier():
    t = os.environ.get("VERIF_TIER", "quick")
    for a in sys.argv[1:]:
        if a in ("--quick", "quick"):
            t = "quick"
        if a in ("--thorough", "thorough"):
            t = "thorough"
    return t if t in ("quick", "thorough") else "quick"


def seed():
    try:
        return int(os.environ.get("VERIF_SEED", "0"))
    except ValueError:
        return 0


def known_findings(prop):
    try:
        data = json.load(open(KNOWN))
    except Exception:
        return []
    return [f for f in data.get("findings", []) if f.get("property") == prop and f.get("status") == "known"]


class Report:
    """Collects obligations, violations and inconclusive items for one property run."""

    def __init__(self, prop, level="model_checking"):
        self.prop = prop
        self.level = level
        self.tier = tier()
        self.seed = seed()
        self.t0 = time.time()
        self.obligations = 0
        self.discharged = 0
        self.violations = []      # dicts with 'key', 'what', 'replay'
        self.known_hit = []
        self.inconclusive = []
        self.states = 0
        self.transitions = 0
        self.validated = 0
        self.samples = []
        self.assumptions = []
        self.extra = {}
        self.solver_s = 0.0
        self.queries = 0
        self.functions = []
        self.bounds = {}
        self._known = known_findings(prop)

    def sample(self, s, cap=12):
        if len(self.samples) < cap:
            self.samples.append(s)

    def ok(self, n=1):
        self.obligations += n
        self.discharged += n

    def inconc(self, what):
        self.obligations += 1
        self.inconclusive.append(what)
        if len(self.inconclusive) <= 20:
            print("INCONCLUSIVE: property=%s %s" % (self.prop, what), flush=True)

    def violation(self, key, what, replay_obj):
        """A reproduced counterexample.  `key` identifies the failing input/call site for the
        known-findings file."""
        self.obligations += 1
        for k in self._known:
            import re as _re
            if k.get("key") == key or (k.get("key_regex") and _re.fullmatch(k["key_regex"], key)):
                first = k.get("id", k.get("key", k.get("key_regex"))) not in [x["finding"] for x in self.known_hit]
                self.known_hit.append({"finding": k.get("id", k.get("key", k.get("key_regex"))), "key": key})
                if first:
                    print("KNOWN-FINDING: property=%s %s" % (self.prop, k.get("what", what)), flush=True)
                return
        if len(self.violations) >= 25:
            # enough witnesses; keep counting but stop writing files / lines
            self.violations.append({"key": key, "what": what, "replay": self.violations[0]["replay"]})
            return
        os.makedirs(REPLAY_DIR, exist_ok=True)
        path = os.path.join(REPLAY_DIR, "%s_%d.json" % (self.prop, len(self.violations)))
        with open(path, "w") as f:
            json.dump({"property": self.prop, "key": key, "what": what, "replay": replay_obj}, f, indent=1)
        self.violations.append({"key": key, "what": what, "replay": path})
        print("VIOLATION property=%s replay=%s" % (self.prop, path), flush=True)
        print("  " + what, flush=True)

    def finish(self, rule, trusted):
        wall = time.time() - self.t0
        cov = {
            "states": max(self.states, 0),
            "transitions": max(self.transitions, 0),
            "traces_validated_against_impl": self.validated,
            "samples": self.samples if self.samples else ["(no obligations generated)"],
            "obligations": self.obligations,
            "discharged": self.discharged,
            "inconclusive": len(self.inconclusive),
            "inconclusive_items": self.inconclusive[:20],
            "solver_queries": self.queries,
            "solver_s": round(self.solver_s, 3),
            "functions_encoded": self.functions[:400],
            "bounds": self.bounds,
            "rule": rule,
            "trusted_base": trusted,
            "known_findings_hit": self.known_hit,
            "exhaustive": False,
        }
        cov.update(self.extra)
        ev = {
            "property_id": self.prop,
            "tier": self.tier,
            "seed": self.seed,
            "level": self.level,
            "coverage": cov,
            "assumptions": self.assumptions,
            "wall_s": round(wall, 3),
            "violations": len(self.violations),
        }
        os.makedirs(EVIDENCE_DIR, exist_ok=True)
        with open(os.path.join(EVIDENCE_DIR, self.prop + ".json"), "w") as f:
            json.dump(ev, f, indent=1, default=str)
        print("%s tier=%s obligations=%d discharged=%d violations=%d inconclusive=%d states=%d "
              "transitions=%d solver=%.1fs wall=%.1fs" % (
                  self.prop, self.tier, self.obligations, self.discharged, len(self.violations),
                  len(self.inconclusive), self.states, self.transitions, self.solver_s, wall), flush=True)
        if self.violations:
            return 1
        if self.inconclusive:
            return 2
        return 0
