#!/usr/bin/env python3-vt
"""C07 — every function the compiler emits is well-formed bytecode (E1 abstract mode)."""
import os, sys
sys.path.insert(0, os.path.dirname(os.path.dirname(os.path.abspath(__file__))))
import z3
from checks.common import Report
from checks import wellformed

rep = Report("C07")
wellformed.run("C07", rep, want=("c07",))
rep.assumptions = [
    "instruction-effect table in sqvm/abstract.py restates executor.rs handle_*; validated each run against single-stepped real executions (traces_validated_against_impl = instruction steps compared)",
    "Call nets -1 on the caller's stack: holds because every callee satisfies the exit condition proved here (consumes its argument, leaves one result)",
    "the program quantifier is instantiated by the corpus (std, examples, test-suite sources, spec examples); paths are decided exhaustively per function",
]
sys.exit(rep.finish(
    rule="one obligation = one unique function (instructions + arities it refers to) in one variant (compiled / tree-shaken / merged); decided by one z3 query over all its paths",
    trusted=["sqvm/abstract.py effect table", "qvdump walk (independent Rust re-derivation of counterexample paths)", "z3 %s" % z3.get_version_string()]))
