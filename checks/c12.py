#!/usr/bin/env python3-vt
"""C12 — builtins are total and agree with simple reference models (E2, Kani on the real builtin
bodies in a harness world).

The REAL sources quiver-core/src/builtins/{binary,integer,vector}.rs, the bigint_to_* helpers of
builtins/mod.rs and the REAL rope quiver-core/src/binary.rs are copied verbatim from /repo's
working tree into a scratch crate (kani/c12world) whose plumbing types — Value (recursive Arc
payload), num-bigint, the Executor's heap — are light stand-ins that CBMC can get through.  One
Kani harness per builtin compares the real body with a plain reference model over symbolic
arguments (128-bit integers, byte arrays of symbolic length) and relies on Kani's own checks for
"never panics".  The rope harnesses check the real rope against a flat byte array, which is what
makes the builtin results independent of how an argument binary was built.

Every Kani counterexample is decoded to concrete arguments and replayed through the REAL builtin
(real Value, real num-bigint, real Executor) with the qvdump helper in the dev and release
profiles, judged by an independent Python reference model; only what reproduces is reported.
"""
import json
import os
import re
import shutil
import subprocess
import sys
import tempfile
import time
from concurrent.futures import ThreadPoolExecutor

sys.path.insert(0, os.path.dirname(os.path.dirname(os.path.abspath(__file__))))
from checks.common import Report
from checks import kani_runner as K
from checks import c12_models as M
from sqvm.qv import QV

PAR = int(os.environ.get("C12_PAR", "6"))
VERIF = os.path.dirname(os.path.dirname(os.path.abspath(__file__)))
WORLD = os.path.join(VERIF, "kani", "c12world")
CORE = "/repo/quiver-core/src"

WHAT = {
    "c12_binary_get": "binary_get == big-endian bit window, clean error outside the domain, no panic",
    "c12_binary_set": "binary_set == bit-string update, clean error outside the domain, no panic",
    "c12_binary_set_window": "binary_set at byte offset 0 of a 9-byte binary: every bit offset, width and value",
    "c12_binary_shift": "binary_shift == logical shift of the bit string for every i64 amount",
    "c12_binary_slice": "binary_slice == bytes[start..end]",
    "c12_binary_concat_length": "binary_concat == a ++ b, binary_length == len",
    "c12_binary_new": "binary_new == zero fill up to the size limit",
    "c12_binary_repeat": "binary_repeat == unit tiled count times up to the size limit",
    "c12_binary_logic": "binary_and/or/xor/not bytewise with the documented length rule",
    "c12_binary_index": "binary_index == first position at or after offset, nil if absent",
    "c12_binary_popcount_hash": "binary_popcount, hash32, hash64 (FNV-1a)",
    "c12_binary_append": "binary_append == bytes ++ big-endian value",
    "c12_integer_bitwise": "integer_and/or/xor/not/popcount on i64, error iff an operand does not fit",
    "c12_integer_shift": "integer_shift 64-bit semantics for every i64 amount",
    "c12_vector_get": "vector_get == lane or nil",
    "c12_vector_push": "vector_push == append one lane or nil",
    "c12_vector_elementwise": "vector_add/subtract/multiply (checked) and less_than/equal/greater_than masks",
    "c12_vector_reduce": "vector_sum / vector_dot exact",
    "c12_vector_dot16": "vector_dot over two 8-byte lanes: exact where the sum fits 127 bits, and no machine-word overflow inside the body beyond that",
    "c12_vector_take": "vector_take == gather by mask",
    "c12_rope_slice": "real rope: slice of owned == flat (len, byte_at, to_vec, find_byte)",
    "c12_rope_slice_window": "real rope: a one-byte Slice window of a two-byte buffer: len, byte_at, find_byte confined to the window",
    "c12_rope_concat": "real rope: concat of owned (and a slice across the seam) == flat",
    "c12_rope_zeroed": "real rope: zero fill == flat",
    "c12_rope_concat_pair": "real rope: concat of two one-byte buffers: len, byte_at, find_byte from every offset",
    "c12_rope_tiled": "real rope: tiled length is the mathematical product for EVERY count (never wraps under the size limit), content periodic",
    "c12_rope_tiled_small": "real rope: tiled() normalisation of small/degenerate repetitions == flat",
}

# instances run in the quick tier (one per builtin family, at its most telling length)
QUICK = {
    "c12_binary_get__9", "c12_binary_slice__3", "c12_binary_new", "c12_binary_index__5",
    "c12_binary_popcount_hash__3", "c12_binary_repeat__1", "c12_integer_bitwise", "c12_integer_shift",
    "c12_vector_get__8", "c12_rope_tiled__1", "c12_rope_tiled__2", "c12_rope_zeroed__3",
    "c12_rope_tiled_small__2_0", "c12_rope_slice_window__0", "c12_rope_slice_window__1", "c12_rope_concat_pair",
    "c12_rope_slice__3_2_2",
}

# The claimed set: the harness instances CBMC finishes within 14 GB (measured; see DESIGN §2/§4).
CLAIMED = QUICK | {
    "c12_binary_concat_length__0_0", "c12_binary_get__0", "c12_binary_get__1", "c12_binary_get__8",
    "c12_binary_index__0", "c12_binary_index__1", "c12_binary_logic__0_0", "c12_binary_logic__1_3",
    "c12_binary_logic__3_1", "c12_binary_logic__3_3", "c12_binary_popcount_hash__0",
    "c12_binary_popcount_hash__1", "c12_binary_repeat__0", "c12_binary_repeat__3", "c12_binary_shift__0",
    "c12_binary_slice__0", "c12_binary_slice__6", "c12_rope_slice__2_3_0", "c12_rope_tiled_small__2_1",
    "c12_rope_zeroed__0", "c12_vector_get__0", "c12_vector_get__3", "c12_vector_get__4", "c12_vector_take__0_0",
}
# run alone with 45 GB in the thorough tier (they need > 20 GB)
HEAVY = {"c12_binary_shift__1", "c12_binary_shift__3"}

# Everything else exists but is NOT part of the claim: CBMC exceeds the memory cap on it.  Such an
# instance can be run explicitly with C12_ONLY=<regex> C12_MEM_GB=<n> C12_PAR=1.
NOT_CLAIMED_WHY = {
    r"c12_binary_set__": "time-out / out of memory (> 20 GB, > 20 min): 9-10 byte read-modify-write body",
    r"c12_binary_(append|concat_length__(0_2|3_0|2_3))|c12_binary_shift__4|c12_vector_(push|elementwise|reduce)|c12_vector_take__[458]":
        "out of memory at 14 GB: bodies that build result Vecs from non-empty inputs",
    r"c12_vector_dot16__":
        "out of memory at 24 GB even with the second operand's lanes restricted to six boundary constants (added for the seeded change C12c; an i128 accumulator in vector_dot would fail Rust's overflow assertion here if CBMC could finish)",
    r"c12_rope_slice__4|c12_rope_slice__3_1_2|c12_rope_slice_small__|c12_rope_concat__|c12_rope_tiled_small__(1_3|2_2)":
        "BinaryData::len/byte_at/find_byte recurse through Rc children; CBMC cannot see a heap-resident variant and unwinds every arm at every level (covered instead by the loop-free window/pair harnesses)",
}


def discover():
    src = open(os.path.join(WORLD, "src", "harness.rs")).read()
    names = re.findall(r"^fn (c12_\w+)\(\)", src, re.M) + re.findall(r"rope_inst!\((c12_\w+),", src)
    out = []
    for n in names:
        base = M.split_name(n)[0]
        out.append((n, WHAT.get(base, base), n in QUICK))
    return out


def prepare(dst):
    shutil.copytree(WORLD, dst, dirs_exist_ok=True)
    real = os.path.join(dst, "real")
    os.makedirs(real, exist_ok=True)
    shutil.copy(os.path.join(CORE, "binary.rs"), os.path.join(real, "binary.rs"))
    shutil.copy(os.path.join(CORE, "builtins", "binary.rs"), os.path.join(real, "builtins_binary.rs"))
    shutil.copy(os.path.join(CORE, "builtins", "integer.rs"), os.path.join(real, "builtins_integer.rs"))
    shutil.copy(os.path.join(CORE, "builtins", "vector.rs"), os.path.join(real, "builtins_vector.rs"))
    err = open(os.path.join(CORE, "error.rs")).read()
    err = re.sub(r"use serde::\{[^}]*\};\n", "", err)
    err = err.replace(", Serialize, Deserialize", "")
    open(os.path.join(real, "error_noserde.rs"), "w").write(err)
    mod = open(os.path.join(CORE, "builtins", "mod.rs")).read()
    out = []
    for name in ("bigint_to_i64", "bigint_to_usize", "bigint_to_u8"):
        m = re.search(r"((?:///[^\n]*\n)*pub fn %s\(.*?\n}\n)" % name, mod, re.S)
        if not m:
            raise RuntimeError("narrowing helper %s not found in builtins/mod.rs" % name)
        out.append(m.group(1))
    open(os.path.join(real, "narrowing_helpers.rs"), "w").write("\n".join(out))


def run_one(scratch, name, timeout_s, mem_gb):
    td = os.path.join(scratch, "target-" + name)
    return K.run_harness(scratch, ".", name, timeout_s=timeout_s, mem_gb=mem_gb, target_dir=td)


def concrete_values(scratch, name, timeout_s=900):
    """Re-run the failing harness with concrete playback and return the list of concrete byte
    vectors (one per kani::any() call, in call order)."""
    env = dict(os.environ)
    env["CARGO_NET_OFFLINE"] = "true"
    env.pop("RUSTUP_TOOLCHAIN", None)
    try:
        p = subprocess.run(["cargo", "kani", "--harness", name, "-Z", "stubbing", "-Z", "concrete-playback",
                            "--concrete-playback=print", "--target-dir", os.path.join(scratch, "target-" + name)],
                           cwd=scratch, env=env, stdout=subprocess.PIPE, stderr=subprocess.STDOUT, text=True,
                           timeout=timeout_s)
    except subprocess.TimeoutExpired:
        return []
    tests = []
    for block in re.finditer(r"let concrete_vals: Vec<Vec<u8>> = vec!\[(.*?)\];", p.stdout, re.S):
        vals = []
        for v in re.finditer(r"vec!\[([0-9, ]*)\]", block.group(1)):
            vals.append([int(x) for x in v.group(1).split(",") if x.strip()])
        tests.append(vals)
    return tests


def main():
    rep = Report("C12")
    tier = rep.tier
    timeout_s = 900 if tier == "quick" else 1800
    mem_gb = int(os.environ.get("C12_MEM_GB", "9"))
    allh = discover()
    only = os.environ.get("C12_ONLY")
    heavy = []
    if only:
        hs = [h for h in allh if re.search(only, h[0])]
    else:
        hs = [h for h in allh if (h[0] in QUICK if tier == "quick" else h[0] in CLAIMED)]
        if tier == "thorough":
            heavy = [h for h in allh if h[0] in HEAVY]
        rep.extra["not_claimed_instances"] = sorted(h[0] for h in allh if h[0] not in CLAIMED and h[0] not in HEAVY)
        rep.extra["not_claimed_why"] = NOT_CLAIMED_WHY
    scratch = tempfile.mkdtemp(prefix="qv-verif-c12.")
    try:
        prepare(scratch)
        # warm one build so the parallel runs do not all compile the (tiny) dependency crates first
        first = run_one(scratch, hs[0][0], timeout_s, mem_gb)
        with ThreadPoolExecutor(max_workers=PAR) as ex:
            rest = list(ex.map(lambda h: run_one(scratch, h[0], timeout_s, mem_gb), hs[1:]))
        results = [first] + rest
        for h in heavy:
            results.append(run_one(scratch, h[0], 2400, 45))
        hs = hs + heavy
        qv_dev = None
        qv_rel = None
        for (name, what, _q), r in zip(hs, results):
            rep.queries += 1
            rep.solver_s += r.seconds
            rep.states += 1
            rep.transitions += max(r.checks, 1)
            rep.functions.append("%s: %s" % (name, what))
            rep.extra.setdefault("per_harness", {})[name] = {"status": r.status, "seconds": round(r.seconds, 1),
                                                             "failed_checks": [d for _, d in r.failed_checks][:4]}
            if r.status == "success":
                rep.ok()
                rep.sample({"harness": name, "claim": what, "cbmc_checks": r.checks, "covers": r.covers,
                            "seconds": round(r.seconds, 1), "verdict": "SUCCESSFUL"})
                continue
            if r.status != "failed":
                rep.inconc("%s: %s after %.0fs" % (name, r.status, r.seconds))
                sys.stderr.write(r.log[-1200:] + "\n")
                continue
            # decode and replay every distinct failed check natively
            if qv_dev is None:
                qv_dev = QV("dev")
                qv_rel = QV("release")
            tests = concrete_values(scratch, name)
            confirmed = 0
            seen_keys = set()
            for vals in tests:
                dec = M.decode(name, vals)
                if dec is None:
                    continue
                for call in dec:
                    verdicts = []
                    for prof, qv in (("dev", qv_dev), ("release", qv_rel)):
                        if "program" in call:
                            # replay through a source-level program (real compiler + executor)
                            cc = qv.compile(call["program"], dump=False)
                            res = qv.req(op="run", h=cc["h"]) if cc.get("ok") else {"ok": False, "error": cc}
                        else:
                            res = qv.req(op="builtin", name=call["builtin"], arg=call["arg"])
                        bad = M.judge(call, res.get("result", {}) if res.get("ok") else {"panic": json.dumps(res)[:200]})
                        if bad:
                            verdicts.append((prof, bad))
                    if verdicts:
                        confirmed += 1
                        kind = verdicts[0][1]["kind"]
                        key = "%s:%s" % (call["builtin"], kind)
                        if key in seen_keys:
                            continue
                        seen_keys.add(key)
                        rep.violation(key, "__%s__ %s: %s (profiles: %s) on %s" % (
                            call["builtin"], kind, verdicts[0][1]["detail"], ",".join(p for p, _ in verdicts),
                            call.get("program") or M.show_arg(call["arg"])),
                            {"builtin": call["builtin"], "arg": call["arg"], "verdicts": verdicts,
                             "harness": name, "failed_checks": r.failed_checks})
            if not confirmed:
                rep.inconc("%s: CBMC counterexample(s) %s did not reproduce on the real builtin" % (
                    name, [d for _, d in r.failed_checks][:3]))
        if qv_dev:
            qv_dev.close()
            qv_rel.close()
    finally:
        K.cleanup(scratch)
    rep.bounds = {"integers": "|n| < 2^127 (128-bit stand-in): covers fits / does not fit in 64 bits",
                  "binaries": "symbolic length up to 2..10 bytes per harness (see kani/c12world/src/harness.rs)",
                  "rope shapes": "owned, zeroed, slice-of-owned, concat-of-owned, tiled-of-owned (depth 1)",
                  "outside": "integer_sqrt/gcd/sin/cos, arithmetic beyond 64-bit operands (num-bigint), longer binaries, deeper ropes, I/O builtins"}
    rep.assumptions = [
        "stand-ins (part of the claim): Value with borrowed field slices, num-bigint as i128, Executor heap of 4 slots with the same size check, flat reference rope for the builtin harnesses",
        "stubs: alloc::fmt::format -> empty string; <BinaryData as Drop>::drop -> no-op in the rope harnesses (Kani ICE on thread_local!)",
        "the builtin harnesses use the flat reference rope; the rope harnesses show the real rope agrees with it on shallow shapes, so results do not depend on how the argument was built (compositional)",
        "documented domain: integer operands of the 64-bit builtins must fit i64 (a clean error otherwise), plus each builtin's stated ranges",
    ]
    sys.exit(rep.finish(
        rule="one obligation = one Kani harness (real builtin body vs reference model over all symbolic arguments within the bound)",
        trusted=["Kani 0.68 / CBMC 6.11", "kani/c12world stand-ins and harness reference models", "checks/c12_models.py (independent Python reference used to judge native replays)"]))


if __name__ == "__main__":
    main()
