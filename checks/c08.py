#!/usr/bin/env python3-vt
"""C08 — run-time type tests accept only members and never reject known members, as compiled,
after tree-shaking and after merging (real tables, SMT over the value space).

The run-time test `IsType(T)` (and the mailbox filter of a receive source) is a lookup of the
value's tag in a table built by quiver-core/src/compatibility.rs.  For each program variant the
REAL tables are dumped, and for every tested type T (closed, first-order) and every tag the
solver decides over all value trees to depth 3:

  * accepts-only-members: a tag the table accepts must be the tag of some member of T, and if the
    tuple type of that tag is closed, none of its values may lie outside T
  * never-rejects-members: if every value of a closed, inhabited tuple type lies in T, or the
    tuple is literally one of T's top-level alternatives, the table must accept its tag;
    Integer / Binary are accepted iff T has an int / bin member
  * the same for the tree-shaken program and for the program merged after another one (tags and
    types are compared inside each variant's own tables)

Engine validation (a run, not a verdict): for the generated families, literal values are pushed
through the real executor's type test and compared with the plain membership evaluator.
"""
import multiprocessing as mp
import os
import random
import sys
import time

sys.path.insert(0, os.path.dirname(os.path.dirname(os.path.abspath(__file__))))
import z3
from checks.common import Report
from checks.typerel import Decider, tables, fmt_type, top_tuples, parse_tree, member, DEPTH
from sqvm.qv import QV
from sqvm.typesem import Unsupported, INT_TAG, BIN_TAG
from sqvm.gen_types import programs as gen_type_programs, EXPRS
from sqvm.corpus import std_sources, example_sources, test_sources, spec_sources

PROP = "C08"

OTHER = "k = 7, #'int { [~, k] __integer_add__ }"      # the program merged first


def tested_types(bc):
    """type ids used by IsType instructions, and (function id, parameter type) for mailbox filters"""
    ist = set()
    for f in bc["functions"]:
        for ins in f["instructions"]:
            if isinstance(ins, dict) and "IsType" in ins:
                ist.add(ins["IsType"])
    params = []
    for fid, f in enumerate(bc["functions"]):
        t = bc["types"][f["type_id"]] if f["type_id"] < len(bc["types"]) else None
        if isinstance(t, dict) and "fn" in t:
            params.append((fid, t["fn"]["parameter"]))
    return sorted(ist), params


def decide_table(name, variant, bc, compat, out, budget):
    types, tuples = tables(bc)
    D = Decider(types, tuples)
    ist, params = tested_types(bc)
    tc = [set(tuple(x) for x in s) for s in compat["type_compatibility"]]
    fpc = [set(tuple(x) for x in s) for s in compat["function_param_compatibility"]]
    subjects = [("IsType", t, tc[t] if t < len(tc) else set()) for t in ist]
    seen_param = set()
    for fid, pt in params:
        if pt in seen_param or fid >= len(fpc):
            continue
        seen_param.add(pt)
        subjects.append(("receive-filter(fn %d)" % fid, pt, fpc[fid]))
    root = D.root_tag()
    # a value can have a compile-time type only if its tuple has a type entry in this table
    has_entry = set(t["tuple"] for t in types if isinstance(t, dict) and "tuple" in t)
    summary = {}       # (kind of test, printed type) -> {printed tuple: accepted?}
    out.setdefault("summaries", {})[variant] = summary
    for what, T, accept in subjects:
        if time.time() > budget:
            out["budget_exhausted"] += 1
            break
        if not D.supported(T):
            out["skipped_types"] += 1
            continue
        out["tested_types"] += 1
        fT = fmt_type(types, tuples, T)
        tops = top_tuples(types, T)

        def fail(kind, detail, extra=None):
            e = {"key": "%s[%s]:%s(%s)" % (name, variant, kind, detail), "why": "%s on %s, %s: %s %s" % (what, fT, variant, kind, detail),
                 "source": out["source"], "variant": variant, "type": T}
            e.update(extra or {})
            out["fail"].append(e)

        # Integer / Binary
        for tagname, tagv, ct in (("Integer", INT_TAG, ("int",)), ("Binary", BIN_TAG, ("bin",))):
            out["goals"] += 1
            r, tree = D.check(root == tagv, D.over(T))
            has = (r == "sat")
            if r == "unknown":
                out["inconclusive"].append("%s[%s]: solver unknown (%s in %s)" % (name, variant, tagname, fT))
            elif has != (ct in accept):
                fail("accepts-non-member" if ct in accept else "rejects-member", tagname)
            else:
                out["ok"] += 1
        summ = summary.setdefault((what.split("(")[0], fmt_type(types, tuples, T, 4)), {})
        for k in range(len(tuples)):
            acc = ("tuple", k) in accept
            sig = D.sem.tuple_sig(k)
            fk = "%s#%d" % (fmt_type(types + [{"tuple": k}], tuples, len(types)), k)
            summ[fmt_type(types + [{"tuple": k}], tuples, len(types), 4)] = acc
            literal = tops is not None and k in tops
            closed = D.tuple_closed(k)
            # cheap pre-filter: a tuple that is neither accepted, nor literal, nor of a signature T can have
            if not acc and not literal:
                r, _ = D.check(root == sig, D.over(T))
                if r == "unsat":
                    out["goals"] += 1
                    out["ok"] += 1
                    continue
            out["goals"] += 1
            bad = False
            if acc:
                r, _ = D.check(root == sig, D.over(T))
                if r == "unsat":
                    fail("accepts-non-member", fk + ": no member of the type has this tag")
                    bad = True
                elif closed:
                    r2, tree = D.check(D.tuple_formula(k, "under"), z3.Not(D.over(T)))
                    if r2 == "sat":
                        ok = False
                        try:
                            tr = parse_tree(tree)
                            ok = member(types + [{"tuple": k}], tuples, len(types), tr) and not member(types, tuples, T, tr)
                        except Exception:
                            ok = False
                        if ok:
                            fail("accepts-non-member", fk + ": the value %s carries this tag and is outside the type" % tree, {"value": tree})
                            bad = True
                        else:
                            out["inconclusive"].append("%s[%s]: model %s not confirmed (%s in %s)" % (name, variant, tree, fk, fT))
                            bad = True
            elif k in has_entry:
                if literal:
                    fail("rejects-member", fk + ": the tuple is one of the type's own alternatives")
                    bad = True
                elif closed:
                    inh, _ = D.check(D.tuple_formula(k, "under"))
                    if inh == "sat":
                        r2, _ = D.check(D.tuple_formula(k, "over"), z3.Not(D.under(T)))
                        if r2 == "unsat":
                            fail("rejects-member", fk + ": every value of this tuple type is in the type")
                            bad = True
                elif D.tuple_generic(k):
                    # a tuple built inside a generic function carries the generic tuple id at run
                    # time (`wrap = #<'t>'t { Box[$] }` tags its results Box['t]); a value whose
                    # compile-time type is an instance inside T must still be accepted, so the tag
                    # is required whenever some value that can carry it is a member of T
                    r2, tree = D.check(D.generic_tuple_formula(k, "under"), D.under(T))
                    if r2 == "sat":
                        fail("rejects-member", fk + ": generic tuple tag; the value %s can carry it and is in the type" % tree)
                        bad = True
            if not bad:
                out["ok"] += 1
        if len(out["fail"]) >= 6:
            break
    out["queries"] += D.queries
    out["solver_s"] += D.solver_s


def check_program(args):
    name, src, seed, budget_s, exprs = args[:5]
    other_src = args[5] if len(args) > 5 and args[5] else OTHER
    out = {"name": name, "source": src, "compiled": False, "variants": 0, "tested_types": 0, "skipped_types": 0,
           "goals": 0, "ok": 0, "fail": [], "inconclusive": [], "queries": 0, "solver_s": 0.0, "budget_exhausted": 0,
           "vm_validated": 0, "samples": []}
    budget = time.time() + budget_s
    with QV() as qv:
        c = qv.compile(src)
        if not c.get("ok"):
            return out
        out["compiled"] = True
        variants = [("compiled", c["bytecode"], c["compat"])]
        ts = qv.req(op="tree_shake", h=c["h"])
        if ts.get("ok"):
            variants.append(("tree_shaken", ts["bytecode"], ts["compat"]))
        else:
            out["inconclusive"].append("%s: tree_shake failed" % name)
        oc = qv.compile(other_src, dump=False)
        if oc.get("ok"):
            mg = qv.req(op="merge", hs=[oc["h"], c["h"]])
            if mg.get("ok"):
                variants.append(("merged", mg["bytecode"], mg["compat"]))
            else:
                out["inconclusive"].append("%s: merge failed" % name)
        for vname, bc, compat in variants:
            out["variants"] += 1
            decide_table(name, vname, bc, compat, out, budget)
            if out["fail"]:
                break
        # the same test must give the same answer in every configuration: for every tested type
        # and every tuple type known to both variants, accepted identically
        base = out.get("summaries", {}).get("compiled", {})
        for vname, summ in out.get("summaries", {}).items():
            if vname == "compiled" or out["fail"]:
                continue
            for key, tags in summ.items():
                if key not in base:
                    continue
                for tag, acc in tags.items():
                    if tag in base[key]:
                        out["goals"] += 1
                        # (accepted only in the variant is judged by that variant's own
                        # accepts-only-members obligations: a merged environment may know more
                        # tuple types than the program alone)
                        if base[key][tag] and not acc:
                            out["fail"].append({"key": "%s[%s]:differs-from-compiled(%s in %s)" % (name, vname, tag, key[1]),
                                                "why": "%s on %s: the tuple %s is %s as compiled and %s %s" % (
                                                    key[0], key[1], tag, "accepted" if base[key][tag] else "rejected",
                                                    "accepted" if acc else "rejected", vname),
                                                "source": src, "variant": vname})
                        else:
                            out["ok"] += 1
        out.pop("summaries", None)
        # engine validation on the real executor (generated families only): every literal of the
        # fixed value list is tested by f1 (='t2) / f2 (='t1) and compared with plain membership
        if exprs is not None and not out["fail"]:
            types, tuples = tables(c["bytecode"])
            r = qv.req(op="run", h=c["h"], max_steps=200000).get("result", {})
            fns = (r.get("value") or {}).get("v") or []
            if len(fns) >= 4:
                def ptype(i):
                    fid = fns[i]["id"]
                    return types[c["bytecode"]["functions"][fid]["type_id"]]["fn"]["parameter"]
                t1, t2, tu = ptype(2), ptype(3), ptype(0)
                for lit, tree_s in LITERALS:
                    try:
                        tree = parse_tree(tree_s)
                        in_u = member(types, tuples, tu, tree)
                    except Exception:
                        continue
                    if not in_u:
                        continue
                    for fname, tt in (("f1", t2), ("f2", t1)):
                        src2 = src.rsplit("\n", 1)[0] + "\n%s %s" % (lit, fname)
                        c2 = qv.compile(src2, dump=False)
                        if not c2.get("ok"):
                            continue
                        rr = qv.req(op="run", h=c2["h"], max_steps=200000).get("result", {})
                        got = (rr.get("value") or {}).get("v")
                        want = "1" if member(types, tuples, tt, tree) else "0"
                        out["vm_validated"] += 1
                        if got != want:
                            out["fail"].append({"key": "%s:vm-type-test(%s %s)" % (name, lit, fname),
                                                "why": "`%s %s` evaluates to %s on the real executor; membership of the value in the tested type says %s" % (lit, fname, got, want),
                                                "source": src2})
        if out["goals"]:
            out["samples"].append({"program": name, "variants": out["variants"], "tested_types": out["tested_types"],
                                   "obligations": out["goals"]})
    return out


LITERALS = [("1", "int"), ("0x00", "bin"), ("[]", "[]"), ("Ok", "Ok"), ("A", "A"), ("B", "B"), ("A[1]", "A[int]"),
            ("A[0x00]", "A[bin]"), ("P[x: 1]", "P[x: int]"), ("P[x: 1, y: 0x00]", "P[x: int, y: bin]"),
            ("Q[x: 1]", "Q[x: int]"), ("P[x: []]", "P[x: []]"), ("[1, 2]", "[int, int]"), ("[1, []]", "[int, []]"),
            ("[[1, 2], 0x00]", "[[int, int], bin]"), ("Nil", "Nil"), ("Cons[1, Nil]", "Cons[int, Nil]"),
            ("Cons[0x00, Nil]", "Cons[bin, Nil]"), ("Cons[1, Cons[2, Nil]]", "Cons[int, Cons[int, Nil]]"),
            ("Leaf", "Leaf"), ("Node[Leaf, 1, Leaf]", "Node[Leaf, int, Leaf]"), ("Root", "Root"),
            ("Path[1, Root]", "Path[int, Root]"), ("A[Nil]", "A[Nil]"), ("A[Cons[0x00, Nil]]", "A[Cons[bin, Nil]]"),
            ("End", "End"), ("Link[next: 5]", "Link[next: int]"), ("Link[next: End]", "Link[next: End]"),
            ("Link[next: Link[next: End]]", "Link[next: Link[next: End]]"), ("Link[next: Link[next: 5]]", "Link[next: Link[next: int]]"),
            ("[Nil, Nil]", "[Nil, Nil]"), ("[Cons[1, Nil], Cons[0x00, Nil]]", "[Cons[int, Nil], Cons[bin, Nil]]")]


def main():
    rep = Report(PROP, level="translation_validation")
    tier = rep.tier
    gen = [(n, s, (e1, e2)) for n, s, e1, e2 in gen_type_programs()]
    corpus = std_sources() + example_sources()
    if tier == "thorough":
        seen = set(s for _, s in corpus)
        for n, s in test_sources() + spec_sources():
            if s not in seen:
                seen.add(s)
                corpus.append((n, s))
    # function-valued programs in which Ok / nil / user tuples built inside the function reach a
    # partial-type test that no signature names (the tables of the shaken program must still
    # accept them)
    from checks.c10 import gen_functions
    corpus += [(n, s) for n, s in gen_functions() if "/partial" in n]
    # tuples built inside generic functions (run-time tag = the generic tuple id) tested against
    # flat, union, partial and nested patterns
    GEN = "wrap = #<'t>'t { Box[$] }, wrap2 = #<'t, 'u>['t, 'u] { =[a, b] => Pair[a, b] }, lbl = #<'t>'t { Msg[body: $] },\n"
    for i, (pty, pat) in enumerate([("(Box['int] | Other)", "Box['int]"), ("(Box['int] | Box['bin])", "Box['int]"),
                                    ("(Pair['int, 'bin] | Other)", "Pair['int, 'bin]"), ("(Msg[body: 'int] | [])", "Msg[body: 'int]"),
                                    ("(Box['int] | Other)", "(Box['int] | Other)"), ("(Msg[body: 'int] | Other)", "(body: 'int)"),
                                    ("(Box[('int | [])] | Other)", "Box[('int | [])]"), ("(Box[Box['int]] | Other)", "Box[Box['int]]")]):
        corpus.append(("gen_generic_tag/%d" % i,
                       GEN + "f = #%s { | =%s => 1 | 0 },\ng = #%s { 0 },\n[&f, &g, 7 wrap, [1, 0x00] wrap2, 7 lbl, 7 wrap wrap]" % (pty, pat, pat)))
    budget_s = 20 if tier == "quick" else 90
    # the merged variant of a generated program is merged after a sibling that shares one of its
    # two type expressions: functions of the shared type are deduplicated onto the earlier
    # program's ids while the other expression brings new tuple types, so the rows of functions
    # the executor already holds have to grow
    rnd = random.Random(rep.seed)
    allgen = [(n, s, (e1, e2)) for n, s, e1, e2 in gen_type_programs()]
    def sibling(ex):
        sibs = [s2 for _n2, s2, ex2 in allgen if ex2 != ex and (ex2[0] in ex or ex2[1] in ex)]
        return rnd.choice(sibs) if sibs else None
    jobs = [(n, s, rep.seed, budget_s, ex, sibling(ex)) for n, s, ex in gen] + [(n, s, rep.seed, budget_s, None) for n, s in corpus]
    with mp.Pool(16) as pool:
        results = pool.map(check_program, jobs, chunksize=2)
    progs = 0
    tot = {"variants": 0, "tested_types": 0, "skipped_types": 0, "budget_exhausted": 0, "vm_validated": 0}
    for r in results:
        if not r["compiled"]:
            continue
        progs += 1
        for k in tot:
            tot[k] += r[k]
        rep.queries += r["queries"]
        rep.solver_s += r["solver_s"]
        rep.obligations += r["goals"]
        rep.discharged += r["ok"]
        rep.states += r["tested_types"]
        rep.transitions += r["goals"]
        for s in r["samples"]:
            rep.sample(s)
        for f in r["fail"]:
            rep.violation(f["key"], f["why"], f)
        for inc in r["inconclusive"]:
            rep.inconc(inc)
    rep.validated = tot["vm_validated"]
    rep.extra.update(tot)
    rep.extra["programs"] = progs
    rep.extra["disagreements_checked"] = rep.obligations
    rep.functions = ["quiver_core::compatibility::compute_type_compatibility / compute_param_compatibility (real tables of %d programs x {compiled, tree-shaken, merged})" % progs,
                     "quiver_core::optimisation::tree_shake, Environment merge (as producers of the variants)"]
    rep.bounds = {"value depth": DEPTH, "tuple arity": 8,
                  "types": "tested types that are closed and first-order; every tag of the variant's tuple table plus Integer and Binary",
                  "programs": "generated type families (sqvm/gen_types.py) + std + examples%s" % (" + test-suite and spec sources" if tier == "thorough" else ""),
                  "not covered": "function / builtin / process / resource tags and types; tests on generic or open (cyclic without their union) types; merge histories longer than one earlier program"}
    rep.assumptions = ["the meaning of a type is the set of value trees defined in sqvm/typesem.py",
                       "a value with tuple tag k has fields that inhabit k's declared field types (C01's subject)"]
    sys.exit(rep.finish(
        rule="one obligation = one (variant, tested type, tag): the real table's accept/reject verdict against all value trees to depth 3",
        trusted=["sqvm/typesem.py", "z3 %s" % z3.get_version_string()]))


if __name__ == "__main__":
    main()
