"""Shared driver for C07 (well-formed bytecode) and C16 (tail calls in constant space): compiles the
corpus with the real compiler, derives tree-shaken and merged variants with the real code, and
decides every function of every variant with the abstract-mode encoding (sqvm/abstract.py)."""
import json
import multiprocessing as mp
import os
import random
import sys
import time

sys.path.insert(0, os.path.dirname(os.path.dirname(os.path.abspath(__file__))))
from sqvm.qv import QV
from sqvm.machine import Program
from sqvm import abstract
from sqvm.corpus import all_sources, std_sources, example_sources, test_sources, spec_sources
from sqvm.gen_tail import programs as gen_tail_programs
from sqvm.gen_patterns import programs as gen_pattern_programs


class MiniProgram:
    """Just enough of a Program for abstract.effect (sent to worker processes)."""

    def __init__(self, prog, fid):
        fn = prog.functions[fid]
        self.functions = {}
        self.tuples = {}
        self.n_constants = len(prog.constants)
        self.n_types = len(prog.types)
        self.n_builtins = len(prog.builtins)
        self.n_functions = len(prog.functions)
        self.n_tuples = len(prog.tuples)
        self.instrs = fn.instrs
        self.captures = fn.captures
        for (op, a, b) in fn.instrs:
            if op == "Tuple" and a < len(prog.tuples):
                self.tuples[a] = len(prog.tuples[a][1])
            if op == "Function" and a < len(prog.functions):
                self.functions[a] = prog.functions[a].captures

    def key(self):
        return (tuple(self.instrs), self.captures, tuple(sorted(self.tuples.items())),
                tuple(sorted(self.functions.items())),
                # static range facts matter only when violated; include them as booleans
                tuple(self._static_bits()))

    def _static_bits(self):
        bits = []
        for (op, a, b) in self.instrs:
            if op == "Constant":
                bits.append(a < self.n_constants)
            elif op == "IsType":
                bits.append(a < self.n_types)
            elif op == "Builtin":
                bits.append(a < self.n_builtins)
            elif op == "Tuple":
                bits.append(a < self.n_tuples)
            elif op == "Function":
                bits.append(a < self.n_functions)
            elif op == "Process":
                bits.append(b < self.n_functions)
        return bits


class _View:
    """Adapter giving abstract.effect the attribute shape it expects."""

    class _F:
        def __init__(self, instrs, captures):
            self.instrs = instrs
            self.captures = captures

    def __init__(self, mini):
        self.constants = range(mini.n_constants)
        self.types = range(mini.n_types)
        self.builtins = range(mini.n_builtins)
        nt = mini.n_tuples
        nf = mini.n_functions
        self.tuples = _LazyList(nt, lambda a: (None, [None] * mini.tuples.get(a, 0)))
        self.functions = _LazyList(nf, lambda a: _View._F([], mini.functions.get(a, 0)))
        self.main = _View._F(mini.instrs, mini.captures)


class _LazyList:
    def __init__(self, n, f):
        self.n = n
        self.f = f

    def __len__(self):
        return self.n

    def __getitem__(self, i):
        if i == "main":
            raise KeyError
        return self.f(i)


def _analyze(args):
    mini, timeout_ms, cross = args
    view = _View(mini)
    # abstract.check_function indexes program.functions[fid]; give it the function under test
    view.functions = _MainFirst(view.functions, view.main)
    r = abstract.check_function_blocks(view, "main", timeout_ms=timeout_ms)
    agree = None
    if cross:
        # cross-validation of the two encodings (per-instruction Int vs basic-block BV16)
        r2 = abstract.check_function(view, "main", timeout_ms=timeout_ms)
        k1 = sorted(set(v["kind"] for v in r.violations))
        k2 = sorted(set(v["kind"] for v in r2.violations))
        agree = (r.verdict == r2.verdict)
    return {"agree": agree, "verdict": r.verdict, "violations": r.violations, "static": r.static, "tailcalls": r.tailcalls,
            "solver_s": r.solver_s, "nodes": r.nodes, "edges": r.edges, "assertions": r.assertions,
            "cycle": getattr(r, "cycle", None)}


class _MainFirst:
    def __init__(self, inner, main):
        self.inner = inner
        self.main = main

    def __len__(self):
        return len(self.inner)

    def __getitem__(self, i):
        if i == "main":
            return self.main
        return self.inner[i]


def select_sources(tier, seed):
    srcs = std_sources() + example_sources()
    tests = test_sources() + spec_sources()
    # dedupe
    seen = set(s for _, s in srcs)
    uniq = []
    for n, s in tests:
        if s not in seen:
            seen.add(s)
            uniq.append((n, s))
    # generated tail-call shapes: function kind x argument form x target x syntactic position
    gen = [(n, src) for n, src in gen_tail_programs() if src not in seen]
    # generated pattern-matching shapes: subject type x pattern form x context x result
    gen += [(n, src) for n, src in gen_pattern_programs() if src not in seen]
    return srcs + uniq + gen


def validate_effect_table(qv, prog, h, max_steps=200000):
    """Engine validation: single-step the real executor on this program and compare every observed
    (Δstack, Δlocals) with the effect table.  Returns (checked_steps, mismatches)."""
    r = qv.req(op="run", h=h, trace=True, max_steps=max_steps)
    tr = r.get("trace") or []
    checked = 0
    mism = []
    for k in range(len(tr) - 1):
        a, b = tr[k], tr[k + 1]
        fa, fb = a["frames"], b["frames"]
        if not fa:
            continue
        fid, pc = fa[-1]
        instrs = prog.functions[fid].instrs
        if pc >= len(instrs):
            continue
        ins = instrs[pc]
        need, dh, le, bad = abstract.effect(prog, ins)
        if len(fb) != len(fa) or ins[0] in ("Call", "TailCall", "Select", "Spawn"):
            # Select/Spawn complete in a later scheduler step (their net effect is only visible
            # after the notification), Call/TailCall change the frame
            # frame change: only check that the callee's activation as a whole nets -1 later
            continue
        if fb[-1][0] != fid:
            continue
        # a frame may have been exhausted and popped in the same step; depth unchanged here
        checked += 1
        ds = b["stack"] - a["stack"]
        dl = b["locals"] - a["locals"]
        exp_dl = 0
        if le is not None:
            if le[0] == "add":
                exp_dl = le[1]
            elif le[0] == "set":
                exp_dl = None
        if ds != dh or (exp_dl is not None and dl != exp_dl):
            mism.append({"fid": fid, "pc": pc, "ins": ins, "observed": [ds, dl], "table": [dh, exp_dl]})
    # call/return balance: when depth returns to d after a Call at depth d, stack is one lower
    stack_at_call = {}
    for k in range(len(tr) - 1):
        a = tr[k]
        fa = a["frames"]
        if not fa:
            continue
        fid, pc = fa[-1]
        instrs = prog.functions[fid].instrs
        if pc < len(instrs) and instrs[pc][0] == "Call":
            b = tr[k + 1]
            if len(b["frames"]) == len(fa) + 1:
                stack_at_call[len(fa)] = (a["stack"], fid, pc)
        d = len(fa)
        if d in stack_at_call and k > 0 and len(tr[k - 1]["frames"]) > d:
            s0, cf, cpc = stack_at_call.pop(d)
            if fa[-1][0] == cf and fa[-1][1] == cpc + 1:
                checked += 1
                if a["stack"] != s0 - 1:
                    mism.append({"fid": cf, "pc": cpc, "ins": "Call/return", "observed": a["stack"] - s0, "table": -1})
    return checked, mism


def run(prop, rep, want):
    """want: subset of {'c07','c16'} — which violation kinds belong to this property."""
    tier = rep.tier
    timeout_ms = 60000
    t_start = time.time()
    sources = select_sources(tier, rep.seed)
    uniq = {}          # key -> (mini, first occurrence)
    occurrences = 0
    programs = 0
    compile_fail = 0
    variants = {"compiled": 0, "tree_shaken": 0, "merged": 0}
    handles = []
    sources_of = {}    # function key -> every source program it occurs in
    pending = []       # unique functions not yet decided
    bad_sources = set()
    validated_steps = 0
    validation_mismatches = []
    with QV() as qv:
        def add_program(name, variant, bc, compat, h):
            nonlocal occurrences
            prog = Program(bc, compat)
            for fid in range(len(prog.functions)):
                mini = MiniProgram(prog, fid)
                occurrences += 1
                k = mini.key()
                sources_of.setdefault(k, set()).add(name)
                if k not in uniq:
                    uniq[k] = (mini, {"source": name, "variant": variant, "fid": fid, "h": h, "key": k})
                    pending.append(uniq[k])
            return prog

        n_validate = 40 if tier == "quick" else 400
        for idx, (name, src) in enumerate(sources):
            c = qv.compile(src)
            if not c.get("ok"):
                compile_fail += 1
                continue
            programs += 1
            variants["compiled"] += 1
            prog = add_program(name, "compiled", c["bytecode"], c["compat"], c["h"])
            handles.append((name, c["h"]))
            if idx < n_validate or name.startswith("std/"):
                chk, mm = validate_effect_table(qv, prog, c["h"])
                validated_steps += chk
                for m_ in mm[:3]:
                    m_["source"] = name
                    validation_mismatches.append(m_)
            if "c07" in want:
                ts = qv.req(op="tree_shake", h=c["h"])
                if ts.get("ok"):
                    variants["tree_shaken"] += 1
                    add_program(name, "tree_shaken", ts["bytecode"], ts["compat"], ts["h"])
                else:
                    rep.inconc("tree_shake failed on %s: %r" % (name, ts))
        tailcall_sites = 0

        def decide_pending():
            """decide every unique function not decided yet"""
            nonlocal tailcall_sites
            items = list(pending)
            del pending[:]
            if "c07" not in want:
                items = [(mini, occ) for (mini, occ) in items if any(i[0] == "TailCall" for i in mini.instrs)]
            with mp.Pool(16) as pool:
                every = 25 if tier == "quick" else 2
                results = pool.map(_analyze, [(mini, timeout_ms, (k % every == 0)) for k, (mini, _) in enumerate(items)],
                                   chunksize=8)
            for (mini, occ), r in zip(items, results):
                _decide_one(mini, occ, r)

        def _decide_one(mini, occ, r):
            nonlocal tailcall_sites
            if r["static"] or r["verdict"] not in ("unsat",):
                bad_sources.update(sources_of.get(occ["key"], ()))
            rep.states += r["nodes"]
            rep.transitions += r["edges"]
            rep.queries += 1
            rep.solver_s += r["solver_s"]
            tailcall_sites += r["tailcalls"]
            where = "%s [%s] fn %d" % (occ["source"], occ["variant"], occ["fid"])
            if r["agree"] is not None:
                rep.extra["encodings_cross_validated"] = rep.extra.get("encodings_cross_validated", 0) + 1
                if r["agree"] is False:
                    rep.inconc("%s: the two encodings disagree" % where)
            if "c16" in want and "c07" not in want and r["tailcalls"] == 0:
                return
            if "c07" in want:
                for (pc, msg) in r["static"]:
                    rep.violation("static:%s:%s" % (occ["source"], msg), "%s pc %d: %s" % (where, pc, msg),
                                  {"source": occ["source"], "variant": occ["variant"], "fid": occ["fid"], "pc": pc, "problem": msg})
            if r["verdict"] == "unsat":
                rep.ok()
                rep.sample({"function": where, "instructions": len(mini.instrs), "tail_calls": r["tailcalls"],
                            "smt_assertions": r["assertions"], "verdict": "unsat (no path violates)"})
            elif r["verdict"] == "cyclic":
                rep.inconc("%s: CFG has a cycle %r (bounded unrolling not implemented)" % (where, r["cycle"]))
            elif r["verdict"] == "unknown":
                rep.inconc("%s: solver unknown" % where)
            else:
                for v in r["violations"]:
                    is16 = v["kind"] == "tailcall-leaves-stack-cells"
                    if (is16 and "c16" not in want) or (not is16 and "c07" not in want):
                        # belongs to the sibling property; this property has nothing to say here
                        rep.ok()
                        continue
                    # independent confirmation by the Rust helper walking the real instructions
                    w = qv.req(op="walk", h=occ["h"], fid=occ["fid"], decisions=v["decisions"])
                    kinds = [p[1] for p in w.get("problems", [])]
                    confirmed = any(v["kind"].startswith(k) or k.startswith(v["kind"].split("(")[0]) for k in kinds)
                    if v["kind"] == "inconsistent-height-at-join":
                        w2 = qv.req(op="walk", h=occ["h"], fid=occ["fid"], decisions=v["decisions_b"])
                        ha = [s_[1] for s_ in w.get("steps", []) if s_[0] == v["pc"]]
                        hb = [s_[1] for s_ in w2.get("steps", []) if s_[0] == v["pc"]]
                        confirmed = bool(ha and hb and ha[0] != hb[0])
                    if v["kind"] == "store-slot-depends-on-path":
                        # the Rust walk along both decision lists must reach the Store with
                        # different numbers of locals
                        w2 = qv.req(op="walk", h=occ["h"], fid=occ["fid"], decisions=v["decisions_b"])
                        la = [s_[2] for s_ in w.get("steps", []) if s_[0] == v["pc"]]
                        lb = [s_[2] for s_ in w2.get("steps", []) if s_[0] == v["pc"]]
                        confirmed = bool(la and lb and la[-1] != lb[-1])
                    if confirmed:
                        rep.violation("%s:%s" % (occ["source"], v["kind"]),
                                      "%s: %s at pc %d (h=%d, l=%d) along branch decisions %s" % (
                                          where, v["kind"], v["pc"], v["h"], v["l"], v["decisions"]),
                                      {"source": occ["source"], "variant": occ["variant"], "fid": occ["fid"],
                                       "violation": v, "walk": w})
                    else:
                        rep.inconc("%s: model %s at pc %d not confirmed by the Rust walk %r" % (
                            where, v["kind"], v["pc"], kinds))

        decide_pending()
        if "c07" in want:
            # merge histories are built from programs whose own functions were all accepted above:
            # merging preserves well-formedness *of well-formed inputs*; a program that already
            # has a (reported) violation would only repeat it under a merged name
            rnd = random.Random(rep.seed + 1)
            order = [(n, h) for (n, h) in handles if n not in bad_sources]
            rnd.shuffle(order)
            group = 4
            n_groups = 12 if tier == "quick" else len(order) // group
            for g in range(min(n_groups, len(order) // group)):
                hs = [h for _, h in order[g * group:(g + 1) * group]]
                names = [n for n, _ in order[g * group:(g + 1) * group]]
                mg = qv.req(op="merge", hs=hs)
                if mg.get("ok"):
                    variants["merged"] += 1
                    add_program("merge(" + ",".join(names) + ")", "merged", mg["bytecode"], mg["compat"], mg["h"])
                else:
                    rep.inconc("merge failed on %s: %r" % (names, mg))
            rep.extra["programs_excluded_from_merging"] = len(bad_sources)
            decide_pending()

    rep.validated = validated_steps
    for m_ in validation_mismatches[:10]:
        rep.inconc("effect table disagrees with the real executor: %r" % (m_,))
    rep.extra.update({
        "programs": programs, "sources": len(sources), "compile_rejected": compile_fail,
        "variants": variants, "function_occurrences": occurrences, "unique_functions": len(uniq),
        "tail_call_sites": tailcall_sites,
    })
    rep.functions = ["every function of every compiled corpus program (%d unique of %d occurrences)" % (len(uniq), occurrences)]
    rep.bounds = {"paths": "all control-flow paths of each function (CFG proven acyclic per function)",
                  "programs": "corpus: std/*.qv, examples, all test-suite source strings and spec examples, plus generated families: tail-call shapes (sqvm/gen_tail.py: 6 function kinds x 9 argument forms x 5 targets x 14 positions) and pattern-matching shapes (sqvm/gen_patterns.py: 8 subject types x 27 patterns x 9 contexts x 8 results), those the compiler accepts",
                  "merge histories": "%d groups of 4 programs merged into one real Environment" % variants["merged"]}
    return rep
