"""Independent Python reference models of the pure builtins, used to judge native replays of C12
counterexamples (and to decode Kani's concrete values into real builtin calls).

Result of a model: ("int", n) | ("bin", bytes) | ("nil",) | ("error",)
"error" means: outside the documented domain — a clean runtime error is the only acceptable
outcome there.  ("either", a, b) lists acceptable alternatives (lenient 64-bit narrowing edge).
"""
MAXB = 16 * 1024 * 1024
I64_MIN, I64_MAX = -(1 << 63), (1 << 63) - 1


def fits64(n):
    return I64_MIN <= n <= I64_MAX


def to_s64(u):
    u &= (1 << 64) - 1
    return u - (1 << 64) if u >> 63 else u


def bits_of(bs):
    return int.from_bytes(bs, "big") if bs else 0


# ------------------------------------------------------------------------------------------------

def m_binary_get(b, bo, bi, nb):
    if not (bo >= 0 and 0 <= bi <= 7 and 1 <= nb <= 64):
        return ("error",)
    start = bo * 8 + bi
    if start + nb > len(b) * 8:
        return ("error",)
    w = bits_of(b)
    total = len(b) * 8
    return ("int", (w >> (total - start - nb)) & ((1 << nb) - 1))


def m_binary_set(b, bo, bi, val, nb):
    if not (bo >= 0 and 0 <= bi <= 7 and 1 <= nb <= 64):
        return ("error",)
    start = bo * 8 + bi
    if start + nb > len(b) * 8:
        return ("error",)
    if val < 0 or val >= (1 << nb):
        return ("error",)
    total = len(b) * 8
    sh = total - start - nb
    w = bits_of(b)
    w = (w & ~(((1 << nb) - 1) << sh)) | (val << sh)
    res = ("bin", w.to_bytes(len(b), "big"))
    if not fits64(val):
        return ("either", res, ("error",))
    return res


def m_binary_shift(b, amt):
    if not fits64(amt):
        return ("error",)
    total = len(b) * 8
    w = bits_of(b)
    if abs(amt) >= total:
        out = 0
    elif amt >= 0:
        out = (w << amt) & ((1 << total) - 1)
    else:
        out = w >> (-amt)
    return ("bin", out.to_bytes(len(b), "big"))


def m_binary_slice(b, s, e):
    if not (0 <= s <= e <= len(b)):
        return ("error",)
    return ("bin", b[s:e])


def m_binary_concat(a, b):
    if len(a) + len(b) > MAXB:
        return ("error",)
    return ("bin", a + b)


def m_binary_length(b):
    return ("int", len(b))


def m_binary_new(n):
    if not (0 <= n <= MAXB):
        return ("error",)
    return ("bin", bytes(n))


def m_binary_repeat(u, c):
    if c < 0 or len(u) * c > MAXB:
        return ("error",)
    return ("bin", u * c)


def m_binary_and(a, b):
    return ("bin", bytes(x & y for x, y in zip(a, b)))


def _pad(a, b):
    n = max(len(a), len(b))
    return a + bytes(n - len(a)), b + bytes(n - len(b))


def m_binary_or(a, b):
    a, b = _pad(a, b)
    return ("bin", bytes(x | y for x, y in zip(a, b)))


def m_binary_xor(a, b):
    a, b = _pad(a, b)
    return ("bin", bytes(x ^ y for x, y in zip(a, b)))


def m_binary_not(a):
    return ("bin", bytes((~x) & 0xFF for x in a))


def m_binary_index(b, byte, off):
    if not (0 <= byte <= 255 and off >= 0):
        return ("error",)
    if off >= (1 << 64):
        return ("either", ("nil",), ("error",))
    i = b.find(bytes([byte]), off) if off <= len(b) else -1
    return ("int", i) if i >= 0 else ("nil",)


def m_binary_popcount(b):
    return ("int", sum(bin(x).count("1") for x in b))


def m_binary_hash32(b):
    h = 2166136261
    for x in b:
        h = ((h ^ x) * 16777619) & 0xFFFFFFFF
    return ("int", h)


def m_binary_hash64(b):
    # the source documents that the 64-bit hash is reinterpreted as i64 ("historical wrapping")
    h = 14695981039346656037
    for x in b:
        h = ((h ^ x) * 1099511628211) & ((1 << 64) - 1)
    return ("int", to_s64(h))


def m_binary_append(b, val, nbytes):
    if not (1 <= nbytes <= 8 and 0 <= val < (1 << (8 * nbytes))):
        return ("error",)
    res = ("bin", b + val.to_bytes(nbytes, "big"))
    if not fits64(val):
        return ("either", res, ("error",))
    return res


def _bit2(f):
    def g(a, b):
        if not (fits64(a) and fits64(b)):
            return ("error",)
        return ("int", to_s64(f(a & ((1 << 64) - 1), b & ((1 << 64) - 1))))
    return g


m_integer_and = _bit2(lambda a, b: a & b)
m_integer_or = _bit2(lambda a, b: a | b)
m_integer_xor = _bit2(lambda a, b: a ^ b)


def m_integer_not(a):
    if not fits64(a):
        return ("error",)
    return ("int", ~a)


def m_integer_popcount(a):
    if not fits64(a):
        return ("error",)
    return ("int", bin(a & ((1 << 64) - 1)).count("1"))


def m_integer_shift(a, s):
    if not (fits64(a) and fits64(s)):
        return ("error",)
    if s == 0:
        return ("int", a)
    if s > 0:
        return ("int", 0 if s >= 64 else to_s64(a << s))
    if s <= -64:
        return ("int", 0 if a >= 0 else -1)
    return ("int", a >> (-s))


def _lane(b, w, i):
    return int.from_bytes(b[i * w:(i + 1) * w], "little", signed=True)


def _fits_lane(v, w):
    return -(1 << (8 * w - 1)) <= v < (1 << (8 * w - 1))


def m_vector_get(b, w, idx):
    if w not in (4, 8):
        return ("error",)
    if idx < 0 or len(b) % w != 0 or (idx + 1) * w > len(b):
        return ("nil",)
    return ("int", _lane(b, w, idx))


def m_vector_push(b, w, v):
    if w not in (4, 8):
        return ("error",)
    if not _fits_lane(v, w) or len(b) % w != 0:
        return ("nil",)
    return ("bin", b + v.to_bytes(w, "little", signed=True))


def _elementwise(op):
    def g(a, b, w):
        if w not in (4, 8):
            return ("error",)
        if len(a) != len(b) or len(a) % w != 0:
            return ("nil",)
        out = b""
        for i in range(len(a) // w):
            z = op(_lane(a, w, i), _lane(b, w, i))
            if not _fits_lane(z, w):
                return ("nil",)
            out += z.to_bytes(w, "little", signed=True)
        return ("bin", out)
    return g


m_vector_add = _elementwise(lambda x, y: x + y)
m_vector_subtract = _elementwise(lambda x, y: x - y)
m_vector_multiply = _elementwise(lambda x, y: x * y)


def _mask(pred):
    def g(a, b, w):
        if w not in (4, 8):
            return ("error",)
        if len(a) != len(b) or len(a) % w != 0:
            return ("nil",)
        return ("bin", bytes(1 if pred(_lane(a, w, i), _lane(b, w, i)) else 0 for i in range(len(a) // w)))
    return g


m_vector_less_than = _mask(lambda x, y: x < y)
m_vector_equal = _mask(lambda x, y: x == y)
m_vector_greater_than = _mask(lambda x, y: x > y)


def m_vector_sum(a, w):
    if w not in (4, 8):
        return ("error",)
    if len(a) % w != 0:
        return ("nil",)
    return ("int", sum(_lane(a, w, i) for i in range(len(a) // w)))


def m_vector_dot(a, b, w):
    if w not in (4, 8):
        return ("error",)
    if len(a) != len(b) or len(a) % w != 0:
        return ("nil",)
    return ("int", sum(_lane(a, w, i) * _lane(b, w, i) for i in range(len(a) // w)))


def m_vector_take(d, w, m):
    if w not in (4, 8):
        return ("error",)
    if len(d) % w != 0 or len(m) != len(d) // w:
        return ("nil",)
    return ("bin", b"".join(d[i * w:(i + 1) * w] for i in range(len(m)) if m[i] != 0))


MODELS = {k[2:]: v for k, v in list(globals().items()) if k.startswith("m_")}

# ------------------------------------------------------------------------------------------------
# value JSON helpers (qvdump format)


def jint(n):
    return {"t": "int", "v": str(n)}


def jbin(b):
    return {"t": "bin", "v": list(b)}


def jtuple(fields):
    return {"t": "tuple", "id": 0, "v": fields}


def to_json_arg(args):
    js = [jbin(a) if isinstance(a, (bytes, bytearray)) else jint(a) for a in args]
    return js[0] if len(js) == 1 else jtuple(js)


def show_arg(arg):
    def f(j):
        if j["t"] == "int":
            return j["v"]
        if j["t"] == "bin":
            return "0x" + bytes(j["v"]).hex()
        return "[" + ", ".join(f(x) for x in j["v"]) + "]"
    return f(arg)


def call(builtin, *args):
    return {"builtin": builtin, "args": list(args), "arg": to_json_arg(args)}


# ------------------------------------------------------------------------------------------------
# decoding Kani concrete values (one byte vector per kani::any() call, in call order)

class Reader:
    def __init__(self, vals):
        self.v = vals
        self.i = 0

    def take(self):
        x = self.v[self.i] if self.i < len(self.v) else [0]
        self.i += 1
        return x

    def bytes_n(self, n, ln):
        arr = bytes(self.take()[0] for _ in range(n))
        return arr[:min(ln, n)]

    def i128(self):
        return int.from_bytes(bytes(self.take()), "little", signed=True)

    def usize(self):
        return int.from_bytes(bytes(self.take()), "little")

    def u8(self):
        return self.take()[0]


def split_name(harness):
    """c12_binary_get__9 -> ('c12_binary_get', [9])"""
    if "__" in harness:
        base, suf = harness.split("__", 1)
        return base, [int(x) for x in suf.split("_") if x != ""]
    return harness, []


def decode(harness, vals):
    r = Reader(vals)
    base, L = split_name(harness)
    try:
        if base == "c12_binary_get":
            b = r.bytes_n(9, L[0])
            return [call("binary_get", b, r.i128(), r.i128(), r.i128())]
        if base == "c12_binary_set_window":
            b = r.bytes_n(10, L[0])
            return [call("binary_set", b, 0, r.i128(), r.i128(), r.i128())]
        if base == "c12_binary_set":
            b = r.bytes_n(10, L[0])
            return [call("binary_set", b, r.i128(), r.i128(), r.i128(), r.i128())]
        if base == "c12_binary_shift":
            b = r.bytes_n(4, L[0])
            return [call("binary_shift", b, r.i128())]
        if base == "c12_binary_slice":
            b = r.bytes_n(6, L[0])
            return [call("binary_slice", b, r.i128(), r.i128())]
        if base == "c12_binary_concat_length":
            a = r.bytes_n(3, L[0])
            b = r.bytes_n(3, L[1])
            return [call("binary_concat", a, b), call("binary_length", a + b)]
        if base == "c12_binary_new":
            return [call("binary_new", r.i128())]
        if base == "c12_binary_repeat":
            u = r.bytes_n(3, L[0])
            return [call("binary_repeat", u, r.i128())]
        if base == "c12_binary_logic":
            a = r.bytes_n(3, L[0])
            b = r.bytes_n(3, L[1])
            w = r.u8()
            return [[call("binary_and", a, b)], [call("binary_or", a, b)], [call("binary_xor", a, b)],
                    [call("binary_not", a)]][w % 4]
        if base == "c12_binary_index":
            b = r.bytes_n(5, L[0])
            return [call("binary_index", b, r.i128(), r.i128())]
        if base == "c12_binary_popcount_hash":
            b = r.bytes_n(3, L[0])
            return [call("binary_popcount", b), call("binary_hash32", b), call("binary_hash64", b)]
        if base == "c12_binary_append":
            b = r.bytes_n(2, L[0])
            return [call("binary_append", b, r.i128(), r.i128())]
        if base == "c12_integer_bitwise":
            a, b, w = r.i128(), r.i128(), r.u8()
            return [[call("integer_and", a, b)], [call("integer_or", a, b)], [call("integer_xor", a, b)],
                    [call("integer_not", a)], [call("integer_popcount", a)]][w % 5]
        if base == "c12_integer_shift":
            return [call("integer_shift", r.i128(), r.i128())]
        if base == "c12_vector_get":
            b = r.bytes_n(8, L[0])
            return [call("vector_get", b, r.i128(), r.i128())]
        if base == "c12_vector_push":
            b = r.bytes_n(8, L[0])
            return [call("vector_push", b, r.i128(), r.i128())]
        if base == "c12_vector_elementwise":
            a = r.bytes_n(8, L[0])
            b = r.bytes_n(8, L[1])
            w, which = r.i128(), r.u8()
            names = ["vector_add", "vector_subtract", "vector_multiply", "vector_less_than", "vector_equal",
                     "vector_greater_than"]
            return [call(names[which % 6], a, b, w)]
        if base == "c12_vector_reduce":
            a = r.bytes_n(8, L[0])
            b = r.bytes_n(8, L[1])
            w, dot = r.i128(), r.u8()
            return [call("vector_dot", a, b, w)] if dot else [call("vector_sum", a, w)]
        if base == "c12_vector_dot16":
            a = r.bytes_n(16, 16)
            edge = [-(1 << 63), (1 << 63) - 1, -1, 1, 0, 1 << 32]
            s0, s1 = r.u64() % 6, r.u64() % 6
            b = (edge[s0] % (1 << 64)).to_bytes(8, "little") + (edge[s1] % (1 << 64)).to_bytes(8, "little")
            return [call("vector_dot", a, b, 8)]
        if base == "c12_vector_take":
            d = r.bytes_n(8, L[0])
            m = r.bytes_n(2, L[1])
            return [call("vector_take", d, r.i128(), m)]
        if base == "c12_rope_concat_pair":
            x, y, needle = r.u8(), r.u8(), r.u8()
            calls = []
            for frm in (0, 1, 2):
                src = "[0x%02x, 0x%02x] __binary_concat__ [~, %d, %d] __binary_index__" % (x, y, needle, frm)
                calls.append({"builtin": "binary_index", "args": [bytes([x, y]), needle, frm], "program": src,
                              "arg": to_json_arg([bytes([x, y]), needle, frm])})
            return calls
        if base == "c12_rope_slice_window":
            b = bytes([r.take()[0], r.take()[0]])
            needle = r.u8()
            off = L[0]
            # the same observation through the public API: a real Slice rope built by
            # __binary_slice__, searched by __binary_index__
            calls = []
            for frm in (0, 1):
                src = "[0x%s, %d, %d] __binary_slice__ [~, %d, %d] __binary_index__" % (b.hex(), off, off + 1, needle, frm)
                calls.append({"builtin": "binary_index", "args": [b[off:off + 1], needle, frm], "program": src,
                              "arg": to_json_arg([b[off:off + 1], needle, frm])})
            return calls
        if base == "c12_rope_tiled":
            u = r.bytes_n(2, L[0])
            c = r.usize()
            # the rope defect is observable through binary_repeat
            return [call("binary_repeat", u, c)]
    except Exception:
        return None
    return None


def acceptable(model, res):
    """does the real result `res` (qvdump JSON) agree with the model outcome?"""
    if model[0] == "either":
        return any(acceptable(m, res) for m in model[1:])
    if "panic" in res:
        return False
    if model[0] == "error":
        return "error" in res
    if "value" not in res:
        return False
    v = res["value"]
    if model[0] == "nil":
        return v["t"] == "tuple" and v["id"] == 0 and not v["v"]
    if model[0] == "int":
        return v["t"] == "int" and int(v["v"]) == model[1]
    if model[0] == "bin":
        return v["t"] == "bin" and v["v"] is not None and bytes(v["v"]) == model[1]
    return False


def judge(c, res):
    """None if the real builtin's result agrees with the reference model, else a finding."""
    f = MODELS.get(c["builtin"])
    if f is None:
        return None
    try:
        model = f(*c["args"])
    except MemoryError:
        return None
    if acceptable(model, res):
        return None
    if "panic" in res:
        return {"kind": "panic", "detail": "panicked: %s" % str(res["panic"])[:160]}
    if "error" in res:
        return {"kind": "error-inside-domain", "detail": "returned %s but the reference model gives %s" % (
            res["error"].get("debug", "")[:120], _show(model))}
    if model[0] == "error":
        return {"kind": "value-outside-domain", "detail": "returned %s outside the documented domain" % _showres(res)}
    return {"kind": "wrong-value", "detail": "returned %s, reference model gives %s" % (_showres(res), _show(model))}


def _show(m):
    if m[0] == "bin":
        return "0x" + m[1][:32].hex() + ("…(%d bytes)" % len(m[1]) if len(m[1]) > 32 else "")
    if m[0] == "either":
        return " or ".join(_show(x) for x in m[1:])
    return str(m[1]) if len(m) > 1 else m[0]


def _showres(res):
    v = res.get("value")
    if v is None:
        return str(res)[:120]
    if v["t"] == "bin":
        b = bytes(v["v"] or [])
        return "0x" + b[:32].hex() + ("…(%d bytes)" % len(b) if len(b) > 32 else "")
    if v["t"] == "int":
        return v["v"]
    return "nil" if v["t"] == "tuple" and not v["v"] else str(v)[:80]
