#!/usr/bin/env python3-vt
"""C19 — the dict module behaves as a finite map.

Engine E1 (SQVM) over the compiled std/dict.qv (+ the %num/%int helpers it calls).  The keys are
k distinct opaque atoms whose 32-bit hashes are FREE bit-vector variables (`__binary_hash32__` is
uninterpreted), so the solver ranges over every collision pattern: equal 5-bit fragments at any
subset of the seven trie levels, full 32-bit collisions, and all 2^32 values of each hash.  The
*shape* of the operation sequence (which of put/remove on which key) is enumerated — it is finite
— and for each shape a driver program is compiled by the real compiler that performs the sequence
and returns every observation (get/has?/count/entries on every version, queried after all later
operations, plus the versions themselves for the canonical-shape obligation).  Per path the solver
decides that every observation equals what a finite map gives.  Counterexample hashes are turned
into real keys by an FNV-1a pre-image search and the driver is run on the real executor.
"""
import itertools
import json
import os
import random
import sys
import time

sys.path.insert(0, os.path.dirname(os.path.dirname(os.path.abspath(__file__))))
import z3
from checks.common import Report
from sqvm.qv import QV
from sqvm.machine import (Program, Machine, VInt, VBin, VTuple, VFn, Atom, NIL, OK, value_from_json,
                          value_to_json, is_nil, Unsupported, conj)
from sqvm.builtins import Builtins, fnv1a32
from sqvm.prove import Prover, StopJob

PROP = "C19"


# ------------------------------------------------------------------------------------------------
# operation-sequence shapes

def sequences(k, L):
    """All sequences of ('put'|'remove', key) of length 1..L over at most k keys, up to renaming of
    keys (a new key is always the next unused index)."""
    out = []

    def rec(seq, used):
        if seq:
            out.append(tuple(seq))
        if len(seq) == L:
            return
        for key in range(min(used + 1, k)):
            nu = max(used, key + 1)
            rec(seq + [("put", key)], nu)
            if key < used:          # removing a never-inserted key: covered once below
                rec(seq + [("remove", key)], nu)
        if used < k and not any(op == "remove" and key == used for op, key in seq):
            # remove of an absent, never-seen key
            rec(seq + [("remove", used)], used + 1)
    rec([], 0)
    return out


def driver_source(seq, k):
    nv = sum(1 for op, _ in seq if op == "put")
    params = ["'bin"] * k + ["'int"] * max(nv, 1)
    names = ["k%d" % i for i in range(k)] + ["v%d" % i for i in range(max(nv, 1))]
    lines = ["#[%s] {" % ", ".join(params), "  =[%s]" % ", ".join(names), "  d0 = [] %dict.new"]
    vi = 0
    for t, (op, key) in enumerate(seq):
        if op == "put":
            lines.append("  d%d = [d%d, k%d, v%d] %%dict.put" % (t + 1, t, key, vi))
            vi += 1
        else:
            lines.append("  d%d = [d%d, k%d] %%dict.remove" % (t + 1, t, key))
    obs = []
    for t in range(len(seq) + 1):
        per = ["d%d" % t]
        for j in range(k):
            per.append("[d%d, k%d] %%dict.get" % (t, j))
            per.append("[d%d, k%d] %%dict.has?" % (t, j))
        per.append("d%d %%dict.count" % t)
        per.append("d%d %%dict.entries" % t)
        obs.append("    [" + ", ".join(per) + "]")
    lines.append("  [\n" + ",\n".join(obs) + "\n  ]")
    lines.append("}")
    return "\n".join(lines)


def model_states(seq):
    """finite-map reference: list of dicts key index -> value index, one per version"""
    st = {}
    out = [dict(st)]
    vi = 0
    for op, key in seq:
        if op == "put":
            st[key] = vi
            vi += 1
        else:
            st.pop(key, None)
        out.append(dict(st))
    return out


# ------------------------------------------------------------------------------------------------

def list_items(prog, v, limit=64):
    """Cons/Nil list -> python list of values, or None if malformed"""
    out = []
    while True:
        if not isinstance(v, VTuple):
            return None
        name = prog.tuples[v.tid][0]
        if name == "Nil" and not v.f:
            return out
        if name == "Cons" and len(v.f) == 2:
            out.append(v.f[0])
            v = v.f[1]
            if len(out) > limit:
                return None
            continue
        return None


def struct_eq(m, a, b):
    return m.values_equal(a, b)


class SeqJob:
    pass


def level0_partitions(k):
    """set partitions of the keys by equality of their level-0 hash fragments: together they cover
    every hash assignment; used to split one history into independent solver jobs"""
    if k != 3:
        return [None]
    return [((0, 1, "eq"), (0, 2, "eq")),                       # all equal
            ((0, 1, "eq"), (0, 2, "ne")),                       # {0,1} {2}
            ((0, 2, "eq"), (0, 1, "ne")),                       # {0,2} {1}
            ((1, 2, "eq"), (0, 1, "ne")),                       # {1,2} {0}
            ((0, 1, "ne"), (0, 2, "ne"), (1, 2, "ne"))]         # all distinct


def check_sequence(args):
    seq, k, timeout_ms, max_paths = args[:4]
    partition = args[4] if len(args) > 4 else None
    out = {"seq": seq, "goals": 0, "ok": 0, "fail": [], "inconclusive": [], "paths": 0, "instr": 0,
           "queries": 0, "solver_s": 0.0, "samples": [], "validated": 0}
    src = driver_source(seq, k)
    with QV() as qv:
        c = qv.compile(src)
        if not c.get("ok"):
            out["inconclusive"].append("driver for %r rejected by the compiler: %r" % (seq, c.get("error")))
            return out
        prog = Program(c["bytecode"], c["compat"])
        r = qv.req(op="run", h=c["h"])
        if "value" not in r.get("result", {}):
            out["inconclusive"].append("driver for %r did not evaluate: %r" % (seq, r))
            return out
        fn = value_from_json(r["result"]["value"])
        ptype = prog.types[prog.functions[fn.fid].type_id]["fn"]["parameter"]
        ptuple = prog.types[ptype]["tuple"]
        nv = max(1, sum(1 for op, _ in seq if op == "put"))
        B = Builtins()
        solver = z3.Solver()
        keys = [Atom("k%d" % i) for i in range(k)]
        vals = [z3.BitVec("v%d" % i, 64) for i in range(nv)]
        arg = VTuple(ptuple, [VBin(a) for a in keys] + [VInt(v) for v in vals])
        states = model_states(seq)
        m = Machine(prog, B, solver=solver, max_steps=400000, max_paths=max_paths, feas_timeout_ms=20000)

        P = Prover(solver, timeout_ms, max_failures=2)

        def prove(name, goal, o):
            P.prove("%r %s" % (seq, name), goal,
                    lambda sv: replay(qv, c["h"], prog, fn, seq, k, nv, sv.model(), B, keys, vals, ptuple))

        def on_outcome(o):
            if o.kind != "value":
                if o.kind == "error":
                    prove("no-runtime-error(%s %s)" % (o.error, o.detail[:40]), False, o)
                elif o.kind == "bound":
                    prove("recursion-bound-not-needed", False, o)
                else:
                    out["inconclusive"].append("%r: %s" % (seq, o.detail))
                return
            obs = o.value
            P.witness(repr(seq))
            if not isinstance(obs, VTuple) or len(obs.f) != len(seq) + 1:
                prove("observation-shape", False, o)
                return
            versions = []
            for t, per in enumerate(obs.f):
                st = states[t]
                f = per.f
                versions.append(f[0])
                for j in range(k):
                    g, h = f[1 + 2 * j], f[2 + 2 * j]
                    if j in st:
                        exp = vals[st[j]]
                        goal = B.int_eq(g.v, exp) if isinstance(g, VInt) else False
                        prove("get(d%d,k%d)=last-put" % (t, j), goal, o)
                        prove("has?(d%d,k%d)=Ok" % (t, j), isinstance(h, VTuple) and h.tid == 1, o)
                    else:
                        prove("get(d%d,k%d)=nil" % (t, j), is_nil(g), o)
                        prove("has?(d%d,k%d)=nil" % (t, j), is_nil(h), o)
                cnt = f[1 + 2 * k]
                prove("count(d%d)=%d" % (t, len(st)), isinstance(cnt, VInt) and B.int_eq(cnt.v, len(st)), o)
                ents = list_items(prog, f[2 + 2 * k])
                if ents is None or len(ents) != len(st):
                    prove("entries(d%d)-length" % t, False, o)
                else:
                    # permutation of the live pairs: every live pair occurs (lengths equal, keys distinct)
                    goals = []
                    for j, vi in st.items():
                        occ = []
                        for e in ents:
                            if isinstance(e, VTuple) and len(e.f) == 2 and isinstance(e.f[0], VBin) \
                                    and isinstance(e.f[0].b, Atom) and e.f[0].b.name == keys[j].name \
                                    and isinstance(e.f[1], VInt):
                                occ.append(B.int_eq(e.f[1].v, vals[vi]))
                        goals.append(z3.Or(*[x if not isinstance(x, bool) else z3.BoolVal(x) for x in occ]) if occ else False)
                    for g_ in goals:
                        prove("entries(d%d)-contains-live-pair" % t, z3.simplify(g_) if not isinstance(g_, bool) else g_, o)
            # canonical shape: versions with the same contents are structurally equal
            for a in range(len(versions)):
                for b in range(a + 1, len(versions)):
                    if states[a] == states[b] and a != b:
                        # same key->value-index map means same contents
                        prove("canonical(d%d==d%d)" % (a, b), struct_eq(m, versions[a], versions[b]), o)
            if len(out["samples"]) < 1:
                out["samples"].append({"sequence": [list(x) for x in seq], "path_constraints": len(o.path),
                                       "observations_checked": P.goals})

        assumptions = []
        if partition is not None:
            frag = [z3.Extract(4, 0, B.hash_of_atom(a)) for a in keys]
            for (i, j, rel) in partition:
                assumptions.append(frag[i] == frag[j] if rel == "eq" else frag[i] != frag[j])
        try:
            m.run(fn, arg, on_outcome, assumptions)
        except Unsupported as e:
            out["inconclusive"].append("%r: %s" % (seq, e))
        except StopJob:
            pass
        out["goals"] += P.goals
        out["ok"] += P.ok
        out["queries"] += P.queries
        out["solver_s"] += P.solver_s
        out["witnesses"] = P.witnesses
        out["inconclusive"].extend(P.inconclusive)
        for f in P.failures:
            out["fail"].append({"goal": f["goal"], "seq": seq, "cex": f["cex"]})
        out["paths"] = m.stats.paths
        out["instr"] = m.stats.instructions
        out["queries"] += m.stats.feas_queries
        out["solver_s"] += m.stats.solver_s
        if m.stats.feas_unknown:
            out["inconclusive"].append("%r: %d feasibility queries unknown" % (seq, m.stats.feas_unknown))
    return out


# ------------------------------------------------------------------------------------------------
# replay: find real keys with the model's hashes

_PRE = {}


def preimages(targets, max_len=5, budget=40_000_000):
    """Find byte strings (distinct) whose FNV-1a-32 equals each target.  Brute force over short
    keys with a meet-in-the-middle table on the last two bytes."""
    need = {}
    for t in targets:
        need.setdefault(t, 0)
        need[t] += 1
    found = {t: [] for t in need}
    PRIME = 16777619
    INV = pow(PRIME, -1, 1 << 32)
    # last-two-byte inversion: h_final = ((h ^ a) * P ^ b) * P  => enumerate (a, b) backwards
    # For each target precompute the set of intermediate hashes h such that some (a,b) completes it.
    suffix = {}
    for t in need:
        for b in range(256):
            x = ((t * INV) & 0xFFFFFFFF) ^ b
            for a in range(256):
                h = ((x * INV) & 0xFFFFFFFF) ^ a
                suffix.setdefault(h, []).append((t, a, b))
    count = 0
    prefixes = [b""]
    for L in range(0, max_len - 1):
        for pre in itertools.product(range(256), repeat=L):
            h = 2166136261
            for x in pre:
                h = ((h ^ x) * PRIME) & 0xFFFFFFFF
            hit = suffix.get(h)
            if hit:
                for (t, a, b) in hit:
                    if len(found[t]) < need[t]:
                        found[t].append(bytes(pre) + bytes([a, b]))
                if all(len(found[t]) >= need[t] for t in need):
                    return found
            count += 1
            if count > budget:
                return found
    return found


def replay(qv, h, prog, fn, seq, k, nv, model, B, keys, vals, ptuple):
    hs = []
    for a in keys:
        hv = B.atom_hash.get(a.name)
        hs.append(model.eval(hv, model_completion=True).as_long() if hv is not None else 0)
    found = preimages(hs)
    used = {}
    kb = []
    for t in hs:
        lst = found.get(t, [])
        i = used.get(t, 0)
        if i >= len(lst):
            return None
        kb.append(lst[i])
        used[t] = i + 1
    vv = [model.eval(v, model_completion=True).as_signed_long() for v in vals]
    # keep values distinct so that a wrong value is observable
    seen = set()
    for i in range(len(vv)):
        while vv[i] in seen:
            vv[i] += 1
        seen.add(vv[i])
    argj = {"t": "tuple", "id": ptuple, "v": [{"t": "bin", "v": list(b)} for b in kb] + [{"t": "int", "v": str(x)} for x in vv]}
    r = qv.req(op="apply", h=h, func=value_to_json(fn), arg=argj, max_steps=5_000_000)
    failed = judge(prog, seq, k, kb, vv, r.get("result", {}))
    if failed:
        return {"keys_hex": [b.hex() for b in kb], "hashes": hs, "values": vv, "failed": failed,
                "result": json.dumps(r.get("result"))[:1500], "driver": driver_source(seq, k)}
    return None


def judge(prog, seq, k, kb, vv, res):
    """finite-map oracle on the concrete result of the real executor"""
    if "value" not in res:
        return ["no value: %s" % json.dumps(res)[:200]]
    obs = value_from_json(res["value"])
    states = model_states(seq)
    failed = []
    versions = []
    for t, per in enumerate(obs.f):
        st = states[t]
        f = per.f
        versions.append(res["value"]["v"][t]["v"][0])
        for j in range(k):
            g, hh = f[1 + 2 * j], f[2 + 2 * j]
            if j in st:
                if not (isinstance(g, VInt) and g.v == vv[st[j]]):
                    failed.append("get(d%d,k%d)" % (t, j))
                if not (isinstance(hh, VTuple) and hh.tid == 1):
                    failed.append("has?(d%d,k%d)" % (t, j))
            else:
                if not is_nil(g):
                    failed.append("get(d%d,k%d) should be nil" % (t, j))
                if not is_nil(hh):
                    failed.append("has?(d%d,k%d) should be nil" % (t, j))
        cnt = f[1 + 2 * k]
        if not (isinstance(cnt, VInt) and cnt.v == len(st)):
            failed.append("count(d%d)" % t)
        ents = list_items(prog, f[2 + 2 * k])
        want = sorted((bytes(kb[j]), vv[vi]) for j, vi in st.items())
        got = None
        if ents is not None:
            try:
                got = sorted((bytes(e.f[0].b), e.f[1].v) for e in ents)
            except Exception:
                got = None
        if got != want:
            failed.append("entries(d%d)" % t)
    for a in range(len(versions)):
        for b in range(a + 1, len(versions)):
            if states[a] == states[b]:
                if json.dumps(versions[a], sort_keys=True) != json.dumps(versions[b], sort_keys=True):
                    failed.append("canonical(d%d,d%d)" % (a, b))
    return failed


# ------------------------------------------------------------------------------------------------

def main():
    rep = Report(PROP)
    if rep.tier == "quick":
        k, L = 2, 3
        timeout_ms, max_paths = 60000, 20000
    else:
        k, L = 3, 4
        timeout_ms, max_paths = 300000, 400000
    seqs = sequences(k, L)
    rnd = random.Random(rep.seed)
    rnd.shuffle(seqs)
    import multiprocessing as mp
    jobs = [(s, k, timeout_ms, max_paths, part) for s in seqs for part in level0_partitions(k)]
    extra = []
    if rep.tier == "quick":
        # the smallest histories that build three-key structure: insert three distinct keys, then
        # one more operation (a node with a lone Node child only arises with >= 3 keys)
        extra = [s for s in sequences(3, 4) if len(s) == 4 and [op for op, _ in s[:3]] == ["put"] * 3
                 and sorted(key for _, key in s[:3]) == [0, 1, 2]
                 and s[3] in (("remove", 0), ("remove", 2))]
        # ... and an absent third key removed from a two-key dict, then a re-put (a removal that
        # must leave the dict untouched, observed structurally and by the next operation)
        extra += [(("put", 0), ("put", 1), ("remove", 2)),
                  (("put", 0), ("put", 1), ("remove", 2), ("put", 0)),
                  (("put", 0), ("put", 1), ("remove", 2), ("put", 1))]
        jobs += [(s, 3, timeout_ms, 400000, part) for s in extra for part in level0_partitions(3)]
    with mp.Pool(16) as pool:
        results = pool.map(check_sequence, jobs, chunksize=1)
    for r in results:
        rep.states += r["paths"]
        rep.transitions += r["instr"]
        rep.queries += r["queries"]
        rep.solver_s += r["solver_s"]
        rep.obligations += r["goals"]
        rep.discharged += r["ok"]
        rep.extra["vacuity_witnesses_sat"] = rep.extra.get("vacuity_witnesses_sat", 0) + r.get("witnesses", 0)
        for s in r["samples"]:
            rep.sample(s)
        for f in r["fail"]:
            rep.obligations -= 1
            rep.violation("%s:%s" % (f["seq"], f["goal"]),
                          "%%dict violates finite-map law %s after %r with keys %s (hashes %s)" % (
                              f["cex"]["failed"], list(f["seq"]), f["cex"]["keys_hex"], f["cex"]["hashes"]), f["cex"])
        for inc in r["inconclusive"]:
            rep.obligations -= 1
            rep.inconc(inc)
    rep.functions = ["%dict.{new,put,remove,get,has?,count,entries} and every helper they call (std/dict.qv, std/num.qv, std/int.qv) as compiled into the driver"]
    rep.bounds = {"distinct keys": k, "operations per history": L, "histories": len(seqs) + len(extra),
                  "additional histories (quick)": "%d histories over 3 keys: three inserts then one removal; two inserts, removal of an absent third key, a re-insert" % len(extra),
                  "hashes": "every assignment of 32-bit hashes to the keys (free bit-vectors)",
                  "values": "free 64-bit integers"}
    rep.extra["histories"] = len(seqs)
    rep.assumptions = [
        "keys are distinct opaque binaries; __binary_hash32__ is an uninterpreted function of the key (its FNV-1a implementation is C12's subject)",
        "integers on these paths are 64-bit bit-vectors; every add/subtract carries a no-overflow side condition that is checked on the path",
        "string keys (Str[bin]) hash their bytes through the same function; only binary keys are driven",
    ]
    sys.exit(rep.finish(
        rule="one obligation = one observation (get/has?/count/entries/canonical shape) on one version on one path of one history shape",
        trusted=["sqvm/machine.py", "sqvm/builtins.py 64-bit bitwise models", "z3 %s" % z3.get_version_string()]))


if __name__ == "__main__":
    main()
